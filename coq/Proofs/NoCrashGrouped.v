(* C15, message level, the DEFAULT path: parse_message(text, find_groups=True) returns a Message or
   raises one of the library's exceptions, for EVERY text, every default version, both validation
   levels (B1); every message that parse_message returns can be encoded (B2).
   The group search is dealt with in Proofs/NoCrashGroupedCore.v; this file puts it behind
   get_message_info / load_library / Message() / `except AttributeError` / Message.add. *)
From Coq Require Import List Bool Arith ZArith NArith Lia Init.Byte.
From HL7 Require Import Lib.Str Model.Ec Model.Result Model.Header Model.Ref Model.Tree Model.Parser Model.Encode
     Model.Leaf Model.MsgTree Model.Groups Model.Message Model.Wf.
From HL7 Require Import Gen.Params Gen.Tables.
From HL7 Require Import Proofs.HeaderFacts Proofs.RoundTripStr Proofs.RoundTripSeg Proofs.RoundTripTables
     Proofs.NoCrash Proofs.NoCrashTables Proofs.NoCrashMsg Proofs.GroupsFacts Proofs.GroupsMirror
     Proofs.NoCrashGroupedCore.
From HL7 Require Proofs.SplitJoin Proofs.RoundTripMsg Proofs.RoundTripMsgTables Proofs.PiecesFacts.
Import ListNotations.
Open Scope bs_scope.
Open Scope res_scope.

(* `except AttributeError: flat parse` *)
Lemma sp_attr_fallback (Adm : exn -> Prop) {A} (P : A -> Prop) (f : unit -> result A) (flat : result A) :
  sp Adm P (f tt) -> sp Adm P flat ->
  sp Adm P (match f tt with Err (Crash AttributeError) => flat | x => x end).
Proof. destruct (f tt) as [a|[c| |[]|]]; cbn; auto. Qed.

(* the reference Message() hands to the search is the empty sequence of a Z message or an entry of
   the message table: a good root for the search *)
Lemma root_gref t root : grp_tables_ok t = true ->
  root = empty_seq \/ (exists k, In (k, root) (t_messages t)) ->
  gref t root /\ (forall ex, chain t root ex -> NoDup (map fst ex)).
Proof.
  intros Hok Hroot. unfold grp_tables_ok in Hok. apply andb_prop in Hok. destruct Hok as [Hm _].
  assert (G : exists n, n <= search_fuel /\ gref_ok t n [] root = true).
  { destruct Hroot as [->|[k Hin]].
    - exists 1. split; [unfold search_fuel; lia|reflexivity].
    - exists 12. split; [unfold search_fuel; lia|]. rewrite forallb_forall in Hm. exact (Hm _ Hin). }
  destruct G as (n & Hn & G). split; [exists n, []; auto|].
  intros ex Hc. exact (proj1 (names_distinct_sound t n [] root (gref_ok_distinct t n [] root G) ex Hc)).
Qed.

Lemma fallback_ok {A} (f : unit -> result A) (alt : result A) a :
  match f tt with Err (HL7 EInvalidName) => alt | x => x end = Ok a -> f tt = Ok a \/ alt = Ok a.
Proof. destruct (f tt) as [b|[[]| |k|]]; intros H; try discriminate H; auto. Qed.

(* B1 *)
Theorem parse_message_grouped_safe dflt lvl text : sph TT (parse_message tables_of dflt lvl true text).
Proof.
  unfold parse_message.
  apply (sp_bind hl7_only TT).
  { destruct (get_message_info_total (lstrip text)) as [[x ->]|[->| ->]]; exact I. }
  intros [[e structure] version] _.
  set (v := match version with Some v => v | None => dflt end).
  destruct (tables_of v) as [t|] eqn:Ht; [|exact I]. cbn [bind].
  destruct (shipped_premises v t Ht) as [H1 [H2 [H3 H4]]].
  pose proof (shipped_msgs_good v t Ht) as H5.
  pose proof (lookup_forallb (fun _ x => grp_tables_ok x) all_tables v t all_grp_tables_ok Ht) as H6.
  cbv beta in H6.
  assert (H7 : seg_keys_ok t = true) by (unfold grp_tables_ok in H6; apply andb_prop in H6; tauto).
  apply (sp_bind_eq hl7_only TT).
  { apply (sp_fallback hl7_only TT (fun _ => new_message lvl t e structure)); now apply new_message_safe. }
  intros m Em _.
  assert (F : sph TT (parse_segments_flat t lvl e (leaf_enc v lvl e) (lstrip text))).
  { unfold parse_segments_flat. apply parse_flat_safe; auto. apply leaf_enc_safe. }
  apply (sp_bind hl7_only TT).
  { destruct (m_st m) as [st|] eqn:Est; [|exact F].
    apply (sp_attr_fallback hl7_only TT (fun _ => parse_segments_grouped t lvl e (leaf_enc v lvl e) (st_reference st) (lstrip text))); [|exact F].
    assert (Hroot : st_reference st = empty_seq \/ exists k, In (k, st_reference st) (t_messages t)).
    { destruct (fallback_ok (fun _ => new_message lvl t e structure) _ _ Em) as [E0|E0];
        exact (Proofs.RoundTripMsgTables.new_message_root t lvl e _ m st E0 Est). }
    destruct (root_gref t _ H6 Hroot) as [Hg Hd].
    eapply sp_weaken; [|apply (parse_segments_grouped_safe hl7_only hl7_only_hl7 t H1 H2 H3 H4 H7 lvl e
                                 (leaf_enc v lvl e) (leaf_enc_safe v lvl e) _ (lstrip text) Hg Hd)].
    intros; exact I. }
  intros kids _. apply (sp_bind hl7_only TT); [apply add_all_safe|]. intros; exact I.
Qed.
Print Assumptions parse_message_grouped_safe.

(* the same, spelled out *)
Corollary parse_message_grouped_outcome dflt lvl text :
  (exists tm, parse_message tables_of dflt lvl true text = Ok tm) \/
  (exists c, parse_message tables_of dflt lvl true text = Err (HL7 c)).
Proof.
  destruct (sp_hl7_cases _ _ (parse_message_grouped_safe dflt lvl text)) as [[tm [H _]]|[c H]]; eauto.
Qed.
Print Assumptions parse_message_grouped_outcome.

(* ------------------------------------------------------------------ *)
(* B2, first half: Group/Message.to_er7 succeeds when every segment does *)

Section NodeInd.
Variable P : node -> Prop.
Hypothesis HS : forall s, P (NSeg s).
Hypothesis HG : forall a b cs, Forall P cs -> P (NGrp a b cs).
Fixpoint node_ind' (n : node) : P n :=
  match n with
  | NSeg s => HS s
  | NGrp a b cs =>
      HG a b cs ((fix go (l : list node) : Forall P l :=
                    match l with
                    | [] => Forall_nil P
                    | y :: r => Forall_cons y (node_ind' y) (go r)
                    end) cs)
  end.
End NodeInd.

Lemma sequence_total (l : list (result str)) :
  (forall r, In r l -> exists x, r = Ok x) -> exists xs, sequence l = Ok xs.
Proof.
  induction l as [|r l IH]; intros H; [now exists []|]. cbn [sequence].
  destruct (H r (or_introl eq_refl)) as [x ->].
  destruct IH as [xs ->]; [intros r' Hr'; apply H; now right|]. cbn [bind]. eauto.
Qed.

Lemma select_in lvl st (xs : list (option str * result str)) r :
  In r (select lvl st xs) -> In r (map snd xs).
Proof.
  unfold select. destruct (is_strict lvl); [|exact (fun H => H)].
  intros H. apply in_flat_map in H. destruct H as [k [_ H]]. apply in_map_iff in H.
  destruct H as [p [<- Hp]]. apply filter_In in Hp. apply in_map. tauto.
Qed.

Lemma join_selected_total lvl st (xs : list (option str * result str)) :
  (forall p, In p xs -> exists x, snd p = Ok x) -> exists x, join_selected lvl st xs = Ok x.
Proof.
  intros H. unfold join_selected. destruct (sequence_total (select lvl st xs)) as [parts ->]; [|cbn [bind]; eauto].
  intros r Hr. apply select_in in Hr. apply in_map_iff in Hr. destruct Hr as [p [<- Hp]]. now apply H.
Qed.

Lemma enc_node_total t lvl e n : nall (fun s => exists x, enc_segment t e s false = Ok x) n ->
  exists x, enc_node t lvl e n = Ok x.
Proof.
  induction n as [s|a b cs IH] using node_ind'; intros H; [exact H|].
  apply nall_NGrp in H. cbn [enc_node].
  assert (E : forall l : list node,
            (fix go (l : list node) : list (option str * result str) :=
               match l with [] => [] | x :: r => (node_name x, enc_node t lvl e x) :: go r end) l
            = map (fun x => (node_name x, enc_node t lvl e x)) l).
  { induction l as [|y l IHl]; [reflexivity|]. cbn [map]. now rewrite <- IHl. }
  rewrite E. apply join_selected_total. intros p Hp. apply in_map_iff in Hp. destruct Hp as [y [<- Hy]].
  cbn [snd]. rewrite Forall_forall in IH, H. exact (IH y Hy (H y Hy)).
Qed.

Lemma enc_children_total t lvl e st cs :
  Forall (nall (fun s => exists x, enc_segment t e s false = Ok x)) cs ->
  exists x, enc_children t lvl e st cs = Ok x.
Proof.
  intros H. unfold enc_children. apply join_selected_total. intros p Hp. apply in_map_iff in Hp.
  destruct Hp as [y [<- Hy]]. cbn [snd]. rewrite Forall_forall in H. exact (enc_node_total t lvl e y (H y Hy)).
Qed.

Lemma nall_impl (P R : seg -> Prop) n : (forall s, P s -> R s) -> nall P n -> nall R n.
Proof.
  intros HPR. induction n as [s|a b cs IH] using node_ind'; intros H; [now apply HPR|].
  apply nall_NGrp. apply nall_NGrp in H. rewrite Forall_forall in *. intros y Hy. exact (IH y Hy (H y Hy)).
Qed.

(* ------------------------------------------------------------------ *)
(* B2, second half: the MSH line.  MSH-1 / MSH-2 of the parsed MSH segment hold the raw texts of
   the field separator and of the encoding characters: what Message._get_encoding_chars reads *)

Lemma mk_subcomponent_value t lvl leaf name dt value ref s :
  mk_subcomponent t lvl leaf name dt value ref = Ok s -> sc_value s = value.
Proof.
  unfold mk_subcomponent. intros H. destruct (_ && _); [discriminate|].
  inv_bind H. destruct a as [[nm d] st]. destruct value as [|c v].
  - now injection H as <-.
  - inv_bind H. now injection H as <-.
Qed.

Lemma mk_component_children t lvl name dt ref c : mk_component t lvl name dt ref = Ok c -> c_children c = [].
Proof.
  unfold mk_component. intros H. inv_bind H. destruct a as [[nm d] st].
  destruct (_ && _ && _ && _); [discriminate|]. now injection H as <-.
Qed.

Lemma mk_field_leaf t lvl name inf : exists f,
  mk_field t lvl (Some name) None (Some (SLeaf inf)) = Ok f /\ f_name f = Some (upper name) /\ f_children f = [].
Proof.
  unfold mk_field, structure_for, parse_structure. cbn [view_of is_varies opt_eqb andb bind].
  eexists. split; [reflexivity|]. split; reflexivity.
Qed.

Section MshLine.
Variable t : tables.
Variable lvl : level.
Variable e : ec.
Variable leaf : option str -> str -> result str.

Lemma parse_field_msh_value text (name : str) inf f' :
  name = unbs "MSH_1" \/ name = unbs "MSH_2" ->
  parse_field t lvl e leaf text (Some name) (Some (SLeaf inf)) false = Ok f' ->
  f_name f' = Some name /\ first_sub_value f' = Some text.
Proof.
  intros Hn H. unfold parse_field in H.
  destruct (mk_field_leaf t lvl name inf) as (f & Ef & Efn & Efc). rewrite Ef in H. cbn [bind] in H.
  assert (Em : is_msh12 (Some name) = true) by (destruct Hn as [-> | ->]; reflexivity).
  assert (Eu : upper name = name) by (destruct Hn as [-> | ->]; reflexivity).
  rewrite Em in H. inv_bind H. rename a into sb. inv_bind H. rename a into c0. inv_bind H. rename a into c.
  apply NoDrop.add_comps_appends in H. destruct H as (E1 & E2 & _).
  apply NoDrop.add_subs_appends in Ha1. destruct Ha1 as (E3 & _).
  apply mk_component_children in Ha0. apply mk_subcomponent_value in Ha.
  split; [now rewrite E2, Efn, Eu|].
  unfold first_sub_value. rewrite E1, Efc. cbn [app]. rewrite E3, Ha0. cbn [app]. now rewrite Ha.
Qed.

Hypothesis Hsegs : forall n r, length n <= 3 -> slookup n (t_segments t) = Some r -> seg_good t n r.
Variable srows : list srow.
Variables row1 row2 : srow.
Variables inf1 inf2 : info.
Hypothesis Hl : slookup (unbs "MSH") (t_segments t) = Some (SSeqIn false srows None).
Hypothesis Hn1 : nth_error srows 0 = Some row1.
Hypothesis Hn2 : nth_error srows 1 = Some row2.
Hypothesis Hr1 : row_ref t row1 = Some (SLeaf inf1).
Hypothesis Hr2 : row_ref t row2 = Some (SLeaf inf2).

Lemma mk_segment_msh s0 : mk_segment t (unbs "MSH") None = Ok s0 ->
  s_name s0 = unbs "MSH" /\ s_children s0 = [] /\
  has_map (Some (s_st s0)) = true /\
  ref_in (Some (s_st s0)) (unbs "MSH_1") = Some (SLeaf inf1) /\
  ref_in (Some (s_st s0)) (unbs "MSH_2") = Some (SLeaf inf2).
Proof.
  intros H. pose proof (Proofs.RoundTripMsg.mk_segment_name t _ _ _ H) as Hn.
  assert (H3 : length (unbs "MSH") <= 3) by (cbn; lia).
  destruct (Hsegs _ _ H3 Hl) as (rows & Er & _ & Hc & Hg). injection Er as <-.
  destruct (rows_parse t (SSeqIn false srows None) false srows None (unbs "MSH") FIE eq_refl Hc Hg)
    as (st & Hp & _ & Ho & Hb).
  unfold mk_segment in H. change (valid_z_segment_name (unbs "MSH")) with false in H. cbv iota in H.
  change (upper (unbs "MSH")) with (unbs "MSH") in H.
  unfold structure_for, load_reference in H. cbn [table_of] in H. rewrite Hl, Hp in H. cbn [bind] in H.
  assert (Es : s_st s0 = st /\ s_children s0 = []).
  { repeat match type of H with
           | (if ?b then _ else _) = _ => destruct b
           | match ?x with _ => _ end = _ => destruct x; try discriminate
           end; try discriminate; injection H as <-; split; reflexivity. }
  destruct Es as [Es Ec]. split; [exact Hn|]. split; [exact Ec|]. rewrite Es.
  unfold has_map, ref_in. rewrite Ho. split; [reflexivity|].
  pose proof (Hb 0 row1 _ Hn1 Hr1) as B1. pose proof (Hb 1 row2 _ Hn2 Hr2) as B2.
  change (name_idx (unbs "MSH") 1) with (unbs "MSH_1") in B1.
  change (name_idx (unbs "MSH") 2) with (unbs "MSH_2") in B2.
  rewrite B1, B2. split; reflexivity.
Qed.

Lemma parse_fields_aux_msh st fv (seps : str) restl kids :
  has_map st = true -> ref_in st (unbs "MSH_1") = Some (SLeaf inf1) -> ref_in st (unbs "MSH_2") = Some (SLeaf inf2) ->
  is_blank seps = false ->
  parse_fields_aux t lvl e leaf (unbs "MSH") st fv ((1, []) :: (2, seps) :: restl) = Ok kids ->
  exists f1 f2 xs, kids = f1 :: f2 :: xs /\
    f_name f1 = Some (unbs "MSH_1") /\ first_sub_value f1 = Some [fsep e] /\
    f_name f2 = Some (unbs "MSH_2") /\ first_sub_value f2 = Some seps.
Proof.
  intros Hm H1 H2 Hb H. cbn [parse_fields_aux] in H.
  change (name_idx (unbs "MSH") 1) with (unbs "MSH_1") in H.
  change (name_idx (unbs "MSH") 2) with (unbs "MSH_2") in H.
  rewrite Hm, H1, H2, Hb in H. change (is_blank []) with true in H. cbn [negb] in H.
  change (streqb (upper (unbs "MSH_1")) (unbs "MSH_1")) with true in H.
  change (streqb (upper (unbs "MSH_2")) (unbs "MSH_2")) with true in H.
  cbv iota in H. cbn [parse_reps] in H.
  apply bind_ok in H. destruct H as (here1 & Hh1 & H).
  apply bind_ok in Hh1. destruct Hh1 as (f1 & Hf1 & Hh1). cbn [bind] in Hh1. injection Hh1 as <-.
  apply bind_ok in H. destruct H as (rest1 & Hr & H). injection H as <-.
  apply bind_ok in Hr. destruct Hr as (here2 & Hh2 & Hr).
  apply bind_ok in Hh2. destruct Hh2 as (f2 & Hf2 & Hh2). cbn [bind] in Hh2. injection Hh2 as <-.
  apply bind_ok in Hr. destruct Hr as (xs & Hxs & Hr). injection Hr as <-.
  destruct (parse_field_msh_value _ _ _ _ (or_introl eq_refl) Hf1) as [N1 V1].
  destruct (parse_field_msh_value _ _ _ _ (or_intror eq_refl) Hf2) as [N2 V2].
  exists f1, f2, xs. cbn [app]. auto.
Qed.

(* stripping keeps `a` and the shape of what follows it *)
Lemma strip_by_shape (p : byte -> bool) (a tail : str) fs :
  a <> [] -> forallb (fun c => negb (p c)) a = true -> p fs = false ->
  (tail = [] \/ exists r, tail = fs :: r) ->
  exists tail', strip_by p (a ++ tail) = a ++ tail' /\ (tail' = [] \/ exists r, tail' = fs :: r).
Proof.
  intros Ha Hp Hfs Ht. unfold strip_by.
  assert (L : lstrip_by p (a ++ tail) = a ++ tail).
  { apply lstrip_by_id'. destruct a as [|c a']; [congruence|]. cbn [app]. cbn [forallb] in Hp.
    apply andb_prop in Hp. now apply negb_true_iff, (proj1 Hp). }
  rewrite L, (Proofs.RoundTripMsg.rstrip_by_app_keep p a tail Ha Hp).
  destruct Ht as [->|[r ->]].
  - exists []. split; [reflexivity|now left].
  - change (fs :: r) with ([fs] ++ r). rewrite (Proofs.RoundTripMsg.rstrip_by_app_keep p [fs] r);
      [|discriminate|cbn; now rewrite Hfs].
    exists (fs :: rstrip_by p r). split; [reflexivity|right; eauto].
Qed.

Lemma bsplit_shape fs (seps tail : str) : nosep beqb fs seps = true ->
  (tail = [] \/ exists r, tail = fs :: r) ->
  exists more, bsplit fs (fs :: seps ++ tail) = [] :: seps :: more.
Proof.
  intros Hn Ht. unfold bsplit, split. cbn [split_aux]. rewrite beqb_refl. cbn [rev].
  rewrite (split_aux_app fs [] seps tail Hn). destruct Ht as [->|[r ->]].
  - exists []. reflexivity.
  - cbn [split_aux]. rewrite beqb_refl. exists (split_aux beqb fs [] r).
    now rewrite app_nil_r, rev_involutive.
Qed.

Lemma nospace_forallb (s : str) : existsb is_space s = false -> forallb (fun c => negb (is_space c)) s = true.
Proof.
  induction s as [|c s IH]; [reflexivity|]. cbn [existsb forallb]. intros H. apply orb_false_iff in H.
  destruct H as [H1 H2]. now rewrite H1, IH.
Qed.

Lemma nospace_nocr (s : str) : existsb is_space s = false -> forallb (fun c => negb (beqb c CR)) s = true.
Proof.
  induction s as [|c s IH]; [reflexivity|]. cbn [existsb forallb]. intros H. apply orb_false_iff in H.
  destruct H as [H1 H2]. now rewrite (not_space_not_cr c H1), IH.
Qed.

(* the MSH line, already stripped: "MSH" fs seps [fs ...] *)
Lemma parse_msh_values (seps tail : str) s :
  (tail = [] \/ exists r, tail = fsep e :: r) ->
  nosep beqb (fsep e) seps = true -> is_space (fsep e) = false ->
  seps <> [] -> existsb is_space seps = false ->
  parse_segment t lvl e leaf (unbs "MSH" ++ fsep e :: seps ++ tail) None = Ok s ->
  s_name s = unbs "MSH" /\ field_value s (unbs "MSH_1") = Some [fsep e] /\
  field_value s (unbs "MSH_2") = Some seps.
Proof.
  intros Ht Hns Hfs Hne Hsp H. unfold parse_segment, parse_segment_in in H.
  change (seg_name_of (unbs "MSH" ++ fsep e :: seps ++ tail)) with (unbs "MSH") in H.
  change (seg_rest_of (unbs "MSH" ++ fsep e :: seps ++ tail)) with (fsep e :: seps ++ tail) in H.
  apply bind_ok in H. destruct H as (s0 & Hs0 & H). apply bind_ok in H. destruct H as (kids & Hk & H).
  destruct (mk_segment_msh s0 Hs0) as (Hn0 & Hc0 & Hm & R1 & R2).
  apply NoDrop.add_fields_appends in H. destruct H as [Ec En]. rewrite Hc0 in Ec. cbn [app] in Ec.
  unfold parse_fields, strip_cr in Hk.
  destruct (strip_by_shape (fun b => beqb b CR) (fsep e :: seps) tail (fsep e)) as (tail' & Es & Ht');
    [discriminate| |exact (not_space_not_cr _ Hfs)|exact Ht|].
  { cbn [forallb]. rewrite (not_space_not_cr _ Hfs). cbn [negb andb]. now apply nospace_nocr. }
  change ((fsep e :: seps) ++ tail) with (fsep e :: seps ++ tail) in Es. rewrite Es in Hk.
  change ((fsep e :: seps) ++ tail') with (fsep e :: seps ++ tail') in Hk.
  destruct (bsplit_shape (fsep e) seps tail' Hns Ht') as (more & Eb). rewrite Eb in Hk.
  unfold indexed in Hk. cbn [length seq combine] in Hk.
  assert (Hb : is_blank seps = false).
  { unfold is_blank, strip. rewrite (strip_by_none is_space seps (nospace_forallb seps Hsp)).
    destruct seps; [congruence|reflexivity]. }
  destruct (parse_fields_aux_msh _ _ _ _ _ Hm R1 R2 Hb Hk) as (f1 & f2 & xs & -> & N1 & V1 & N2 & V2).
  split; [congruence|]. unfold field_value. rewrite Ec. cbn [filter]. rewrite N1, N2.
  change (opt_eqb (Some (unbs "MSH_1")) (Some (unbs "MSH_1"))) with true.
  change (opt_eqb (Some (unbs "MSH_1")) (Some (unbs "MSH_2"))) with false.
  change (opt_eqb (Some (unbs "MSH_2")) (Some (unbs "MSH_2"))) with true.
  cbv iota. split; assumption.
Qed.
End MshLine.

(* ------------------------------------------------------------------ *)
(* what _split_msh accepted *)

Lemma split_aux_nosep c : forall s cur, nosep beqb c cur = true ->
  Forall (fun x => nosep beqb c x = true) (split_aux beqb c cur s).
Proof.
  assert (R : forall cur, nosep beqb c cur = true -> nosep beqb c (rev cur) = true).
  { intros cur H. unfold nosep in *. rewrite forallb_forall in *. intros x Hx. apply H. now apply in_rev. }
  induction s as [|x s IH]; intros cur H; cbn [split_aux].
  - constructor; [now apply R|constructor].
  - destruct (beqb x c) eqn:Exc.
    + constructor; [now apply R|]. now apply IH.
    + apply IH. unfold nosep. cbn [forallb]. rewrite Exc. exact H.
Qed.

Lemma bsplit_first_line s : exists tl, bsplit CR s = first_line s :: tl.
Proof.
  unfold bsplit, split.
  assert (G : forall s cur, exists tl, split_aux beqb CR cur s = (rev cur ++ first_line s) :: tl).
  { clear s. induction s as [|x s IH]; intros cur; cbn [split_aux first_line].
    - exists []. now rewrite app_nil_r.
    - destruct (beqb x CR); [rewrite app_nil_r; eauto|].
      destruct (IH (x :: cur)) as [tl ->]. exists tl. cbn [rev]. now rewrite <- app_assoc. }
  exact (G s []).
Qed.

(* parse_segments strips the piece first: the first piece is the STRIPPED first line *)
Lemma pieces_first s : strip (first_line s) <> [] -> exists ps, pieces s = strip (first_line s) :: ps.
Proof.
  intros H. unfold pieces. destruct (bsplit_first_line s) as [tl ->]. cbn [map filter].
  destruct (strip (first_line s)); [congruence|eauto].
Qed.

Lemma split_msh_shape text fields e : split_msh text = Ok (fields, e) ->
  exists rest seps more,
    text = unbs "MSH" ++ fsep e :: rest /\ is_space (fsep e) = false /\
    bsplit (fsep e) (first_line rest) = seps :: more /\
    existsb is_space seps = false /\ 4 <= length seps.
Proof.
  unfold split_msh. intros H. destruct (msh_field_sep text) as [fs|] eqn:F; [|discriminate].
  apply msh_field_sep_some in F. destruct F as [rest [-> Hs]].
  pose proof (not_space_not_cr fs Hs) as Hcr.
  assert (Efl : first_line (unbs "MSH" ++ fs :: rest) = unbs "MSH" ++ fs :: first_line rest).
  { cbn. now rewrite Hcr. }
  rewrite Efl in H.
  assert (Hmsh : nosep beqb fs (unbs "MSH") = true).
  { destruct (beqb "M" fs) eqn:E1.
    { exfalso. apply beqb_eq in E1. subst fs. cbn in H. discriminate. }
    destruct (beqb "S" fs) eqn:E2.
    { exfalso. apply beqb_eq in E2. subst fs. cbn in H. discriminate. }
    destruct (beqb "H" fs) eqn:E3.
    { exfalso. apply beqb_eq in E3. subst fs. cbn in H. discriminate. }
    unfold nosep. cbn [unbs forallb]. now rewrite E1, E2, E3. }
  assert (Esp : bsplit fs (unbs "MSH" ++ fs :: first_line rest) = unbs "MSH" :: bsplit fs (first_line rest)).
  { unfold bsplit, split. rewrite (split_aux_app fs [] (unbs "MSH") _ Hmsh). cbn [split_aux]. now rewrite beqb_refl. }
  rewrite Esp in H. destruct (bsplit fs (first_line rest)) as [|seps more] eqn:Eb; [now apply Proofs.SplitJoin.bsplit_ne in Eb|].
  cbn [nth_str nth_error bind] in H.
  destruct (negb (nodupb beqb seps)); [discriminate|].
  destruct (existsb is_space seps) eqn:Esps; [discriminate|].
  exists rest, seps, more.
  destruct seps as [|c [|r [|e0 [|s [|tr [|u seps]]]]]]; try discriminate.
  - injection H as _ <-. cbn [fsep]. repeat split; try assumption; cbn; lia.
  - match type of H with match ?o with Some _ => _ | None => _ end = _ => destruct o as [v|]; [|discriminate] end.
    destruct (ge_27 v); [|discriminate].
    injection H as _ <-. cbn [fsep]. repeat split; try assumption; cbn; lia.
Qed.

Lemma first_piece_msh text e structure version :
  get_message_info text = Ok (e, structure, version) ->
  exists ps seps tail,
    pieces text = strip (first_line text) :: ps /\
    strip (first_line text) = unbs "MSH" ++ fsep e :: seps ++ tail /\
    (tail = [] \/ exists r, tail = fsep e :: r) /\
    nosep beqb (fsep e) seps = true /\ is_space (fsep e) = false /\
    existsb is_space seps = false /\ 4 <= length seps /\ take 3 (strip (first_line text)) = unbs "MSH".
Proof.
  unfold get_message_info. intros H. destruct (split_msh text) as [[fields e']|] eqn:Es; [|discriminate].
  cbn [bind] in H. injection H as <- _ _.
  destruct (split_msh_shape _ _ _ Es) as (rest & seps & more & -> & Hs & Eb & Hsp & Hlen).
  set (fs := fsep e') in *.
  pose proof (not_space_not_cr fs Hs) as Hcr.
  assert (Efl : first_line (unbs "MSH" ++ fs :: rest) = unbs "MSH" ++ fs :: first_line rest).
  { cbn. now rewrite Hcr. }
  assert (Hns : nosep beqb fs seps = true).
  { pose proof (split_aux_nosep fs (first_line rest) [] eq_refl) as F. unfold bsplit, split in Eb. rewrite Eb in F.
    now inversion F. }
  assert (Ej : exists tail0, first_line rest = seps ++ tail0 /\ (tail0 = [] \/ exists r, tail0 = fs :: r)).
  { rewrite <- (Proofs.SplitJoin.bjoin_bsplit fs (first_line rest)), Eb. destruct more as [|m1 more].
    - exists []. split; [cbn; now rewrite app_nil_r|now left].
    - exists (fs :: bjoin fs (m1 :: more)). split; [reflexivity|right; eauto]. }
  destruct Ej as (tail0 & Ej & Ht0).
  destruct (strip_by_shape is_space (unbs "MSH" ++ fs :: seps) tail0 fs) as (tail & Est & Ht); [discriminate| |exact Hs|exact Ht0|].
  { rewrite forallb_app. cbn [forallb]. rewrite Hs. cbn [negb andb]. rewrite (nospace_forallb seps Hsp). reflexivity. }
  assert (Estrip : strip (first_line (unbs "MSH" ++ fs :: rest)) = unbs "MSH" ++ fs :: seps ++ tail).
  { rewrite Efl, Ej. unfold strip.
    replace (unbs "MSH" ++ fs :: seps ++ tail0) with ((unbs "MSH" ++ fs :: seps) ++ tail0)
      by (rewrite <- app_assoc; reflexivity).
    rewrite Est. rewrite <- app_assoc. reflexivity. }
  destruct (pieces_first (unbs "MSH" ++ fs :: rest)) as [ps Ep]; [rewrite Estrip; discriminate|].
  exists ps, seps, tail. split; [exact Ep|]. split; [exact Estrip|].
  repeat split; try assumption. now rewrite Estrip.
Qed.

(* the first item ends up as the first top-level leaf, parsed with the reference the search from the
   message reference found directly, or with none *)
Lemma first_step_leaf' t (X A : Type) raw (mkseg : X -> option sref -> result A) nm acceptance root x0 s1 :
  match search t search_fuel (raw x0) root with
  | Ok None => True | Ok (Some (_, [])) => True | _ => False end ->
  step t X A raw mkseg nm acceptance root (init_state A root) x0 = Ok s1 ->
  exists a r, g_forest s1 = [GS a r] /\ mkseg x0 r = Ok a /\
    forall sr, r = Some sr -> search t search_fuel (raw x0) root = Ok (Some (sr, [])).
Proof.
  intros Hs H. unfold Groups.step, init_state in H. cbn [g_stack length Groups.attempts] in H.
  unfold last_entry in H. cbn [rev app bind snd] in H.
  destruct (search t search_fuel (raw x0) root) as [[[sr [|? ?]]|]|]; try contradiction; cbn [bind g_path] in H.
  - cbn [map app] in H. unfold Groups.after_found, cur_group in H. cbn [g_path bind g_stack] in H.
    unfold last_entry in H. cbn [rev app bind fst opt_is_some opt_is_none negb] in H.
    unfold Groups.place in H. destruct (mkseg x0 (Some sr)) as [a|] eqn:Em; cbn [bind] in H; [|discriminate].
    unfold Groups.add_child, cur_group in H. cbn [g_path bind g_forest append_at app g_stack] in H.
    injection H as <-. exists a, (Some sr). split; [reflexivity|]. split; [exact Em|]. now intros sr' [= <-].
  - unfold Groups.place in H. destruct (mkseg x0 None) as [a|] eqn:Em; cbn [bind] in H; [|discriminate].
    unfold Groups.add_child, cur_group in H. cbn [g_path bind g_forest append_at app g_stack] in H.
    injection H as <-. exists a, None. split; [reflexivity|]. split; [exact Em|]. discriminate.
Qed.

(* what Message._get_encoding_chars needs of the children *)
Definition msh_head (e : ec) (kids : list node) : Prop :=
  exists a rest seps, kids = NSeg a :: rest /\ s_name a = unbs "MSH" /\
    field_value a (unbs "MSH_1") = Some [fsep e] /\ field_value a (unbs "MSH_2") = Some seps /\ 4 <= length seps.

Lemma message_ec_total v e m : msh_head e (m_children m) -> exists e', message_ec v m = Ok e'.
Proof.
  intros (a & rest & seps & Ek & Hn & V1 & V2 & Hlen). unfold message_ec. rewrite Ek. cbn [first_msh].
  rewrite Hn. change (streqb (unbs "MSH") (unbs "MSH")) with true. cbv iota. rewrite V1, V2.
  destruct seps as [|c [|r [|e0 [|sb more]]]]; try (cbn in Hlen; lia).
  destruct (ge_27 v && Nat.eqb (length (c :: r :: e0 :: sb :: more)) 5) eqn:E5; [|eauto].
  apply andb_prop in E5. destruct E5 as [_ E5]. apply Nat.eqb_eq in E5.
  destruct more as [|tr [|? ?]]; try (cbn in E5; lia). eauto.
Qed.

(* every message structure lists MSH itself (not inside a group), or not at all *)
Definition msh_top_ok (t : tables) (r : sref) : bool :=
  match search t search_fuel (unbs "MSH") r with Ok None => true | Ok (Some (_, [])) => true | _ => false end.
Lemma all_msh_top_ok :
  forallb (fun p => forallb (fun q : str * sref => msh_top_ok (snd p) (snd q)) (t_messages (snd p))) all_tables = true.
Proof. vm_cast_no_check (@eq_refl bool true). Qed.

Section MshKids.
Variable t : tables.
Variable lvl : level.
Variable e : ec.
Variable leaf : option str -> str -> result str.
Hypothesis Hsegs : forall n r, length n <= 3 -> slookup n (t_segments t) = Some r -> seg_good t n r.
Variable srows : list srow.
Variables row1 row2 : srow.
Variables inf1 inf2 : info.
Hypothesis Hl : slookup (unbs "MSH") (t_segments t) = Some (SSeqIn false srows None).
Hypothesis Hn1 : nth_error srows 0 = Some row1.
Hypothesis Hn2 : nth_error srows 1 = Some row2.
Hypothesis Hr1 : row_ref t row1 = Some (SLeaf inf1).
Hypothesis Hr2 : row_ref t row2 = Some (SLeaf inf2).

(* the header facts about the text *)
Variable text : str.
Variables (ps : list str) (seps tail : str).
Hypothesis Ep : pieces text = strip (first_line text) :: ps.
Hypothesis Estrip : strip (first_line text) = unbs "MSH" ++ fsep e :: seps ++ tail.
Hypothesis Htail : tail = [] \/ exists r, tail = fsep e :: r.
Hypothesis Hns : nosep beqb (fsep e) seps = true.
Hypothesis Hfs : is_space (fsep e) = false.
Hypothesis Hsp : existsb is_space seps = false.
Hypothesis Hlen : 4 <= length seps.
Hypothesis Htake : take 3 (strip (first_line text)) = unbs "MSH".

Lemma seg_of_piece_msh r a :
  (forall sr, r = Some sr -> slookup (unbs "MSH") (t_segments t) = Some sr) ->
  seg_of_piece t lvl e leaf (strip (first_line text)) r = Ok a ->
  s_name a = unbs "MSH" /\ field_value a (unbs "MSH_1") = Some [fsep e] /\
  field_value a (unbs "MSH_2") = Some seps.
Proof.
  intros Hr H. unfold seg_of_piece in H. rewrite Proofs.PiecesFacts.strip_idem, Estrip in H.
  assert (Hne : seps <> []) by (intros ->; cbn in Hlen; lia).
  apply (parse_msh_values t lvl e leaf Hsegs srows row1 row2 inf1 inf2 Hl Hn1 Hn2 Hr1 Hr2 seps tail a Htail Hns Hfs Hne Hsp).
  destruct r as [sr|]; [|exact H]. unfold parse_segment in *.
  change (seg_name_of (unbs "MSH" ++ fsep e :: seps ++ tail)) with (unbs "MSH") in *.
  rewrite <- (Proofs.RoundTripMsg.mk_segment_own t (unbs "MSH") sr); [exact H|].
  right. split; [reflexivity|]. exact (Hr sr eq_refl).
Qed.

Lemma flat_msh_head kids : parse_segments_flat t lvl e leaf text = Ok kids -> msh_head e kids.
Proof.
  unfold parse_segments_flat. rewrite Ep. cbn [parse_flat]. intros H.
  apply bind_ok in H. destruct H as (a & Ha & H). apply bind_ok in H. destruct H as (xs & _ & H). injection H as <-.
  destruct (seg_of_piece_msh None a) as (N & V1 & V2); [discriminate|exact Ha|].
  exists a, xs, seps. auto.
Qed.

Lemma grouped_msh_head root kids : gref t root -> msh_top_ok t root = true ->
  parse_segments_grouped t lvl e leaf root text = Ok kids -> msh_head e kids.
Proof.
  intros Hg Htop H. unfold parse_segments_grouped, parse_segments_grouped_trees, find_groups in H.
  apply bind_ok in H. destruct H as (f & Hf & H). injection H as <-.
  apply bind_ok in Hf. destruct Hf as (s & Hrun & Hf). injection Hf as <-.
  rewrite Ep in Hrun. cbn [Groups.run] in Hrun. apply bind_ok in Hrun. destruct Hrun as (s1 & Hs1 & Hrun).
  destruct (first_step_leaf' t str seg (take 3) (seg_of_piece t lvl e leaf) s_name (group_acceptance t lvl) root
              (strip (first_line text)) s1) as (a & r & Ef & Em & Hr); [|exact Hs1|].
  { rewrite Htake. unfold msh_top_ok in Htop. destruct (search t search_fuel (unbs "MSH") root) as [[[sr [|? ?]]|]|]; (exact I || discriminate). }
  assert (Hh : Proofs.RoundTripMsg.hd_leaf seg a r (g_forest s1)) by (exists []; exact Ef).
  pose proof (Proofs.RoundTripMsg.run_hd t str seg (take 3) (seg_of_piece t lvl e leaf) s_name (group_acceptance t lvl)
                root a r ps s1 s Hh Hrun) as [rest Erest].
  destruct (seg_of_piece_msh r a) as (N & V1 & V2); [|exact Em|].
  { intros sr Esr. specialize (Hr sr Esr). rewrite Htake in Hr.
    destruct (search_sound _ _ _ _ _ _ Hr) as [_ Hd]. cbn in Hd.
    exact (gref_seg t root _ sr Hg Hd (search_not_bad _ _ _ _ _ _ Hr)). }
  rewrite Erest. cbn [map node_of]. exists a, (map node_of rest), seps. auto.
Qed.
End MshKids.

(* ------------------------------------------------------------------ *)
(* B2: every message parse_message returns (find_groups on or off) can be encoded *)

Lemma root_msh_top t root : 
  forallb (fun q : str * sref => msh_top_ok t (snd q)) (t_messages t) = true ->
  root = empty_seq \/ (exists k, In (k, root) (t_messages t)) -> msh_top_ok t root = true.
Proof.
  intros Hall [->|[k Hin]]; [reflexivity|]. rewrite forallb_forall in Hall. exact (Hall _ Hin).
Qed.

Theorem parse_message_encodes dflt lvl fg text t m :
  parse_message tables_of dflt lvl fg text = Ok (t, m) -> exists x, enc_message t lvl m = Ok x.
Proof.
  unfold parse_message. intros H.
  apply bind_ok in H. destruct H as ([[e structure] version] & Hinfo & H).
  set (v := match version with Some v => v | None => dflt end) in *.
  destruct (tables_of v) as [t0|] eqn:Ht; [|discriminate]. cbn [bind] in H.
  apply bind_ok in H. destruct H as (m0 & Em & H).
  apply bind_ok in H. destruct H as (kids & Ek & H).
  apply bind_ok in H. destruct H as (m' & Ea & H). injection H as <- <-.
  destruct (shipped_premises v t0 Ht) as [H1 [H2 [H3 H4]]].
  pose proof (lookup_forallb (fun _ x => grp_tables_ok x) all_tables v t0 all_grp_tables_ok Ht) as H6.
  cbv beta in H6.
  assert (H7 : seg_keys_ok t0 = true) by (unfold grp_tables_ok in H6; apply andb_prop in H6; tauto).
  pose proof (lookup_forallb (fun _ x => forallb (fun q : str * sref => msh_top_ok x (snd q)) (t_messages x))
                all_tables v t0 all_msh_top_ok Ht) as H8. cbv beta in H8.
  destruct (Proofs.RoundTripSegTables.shipped_msh_ok v t0 Ht)
    as (srows & row1 & row2 & inf1 & inf2 & Hl & _ & _ & Hn1 & Hn2 & Hr1 & Hr2 & _).
  destruct (first_piece_msh _ _ _ _ Hinfo) as (ps & seps & tail & Ep & Estrip & Htail & Hns & Hfs & Hsp & Hlen & Htake).
  (* the children are the parsed lines *)
  assert (Em0 : m_children m0 = []).
  { destruct (fallback_ok (fun _ => new_message lvl t0 e structure) _ _ Em) as [E0|E0];
      exact (Proofs.RoundTripMsg.new_message_children lvl t0 e _ m0 E0). }
  apply Proofs.RoundTripMsg.add_all_full in Ea. rewrite Em0 in Ea. cbn [app] in Ea. subst m'.
  (* flat and grouped children *)
  assert (Fl : forall ks, parse_segments_flat t0 lvl e (leaf_enc v lvl e) (lstrip text) = Ok ks ->
                 Forall (nall (encodable t0)) ks /\ msh_head e ks).
  { intros ks Hks. split.
    - exact (sp_inv hl7_only _ _ ks (parse_flat_enc hl7_only hl7_only_hl7 t0 H1 H2 H3 H4 lvl e (leaf_enc v lvl e)
                                     (leaf_enc_safe v lvl e) (pieces (lstrip text))) Hks).
    - exact (flat_msh_head t0 lvl e (leaf_enc v lvl e) H4 srows row1 row2 inf1 inf2 Hl Hn1 Hn2 Hr1 Hr2 (lstrip text)
               ps seps tail Ep Estrip Htail Hns Hfs Hsp Hlen ks Hks). }
  assert (Hkids : Forall (nall (encodable t0)) kids /\ msh_head e kids).
  { destruct (m_st m0) as [st|] eqn:Est; [|now apply Fl]. destruct fg; [|now apply Fl].
    assert (Hroot : st_reference st = empty_seq \/ exists k, In (k, st_reference st) (t_messages t0)).
    { destruct (fallback_ok (fun _ => new_message lvl t0 e structure) _ _ Em) as [E0|E0];
        exact (Proofs.RoundTripMsgTables.new_message_root t0 lvl e _ m0 st E0 Est). }
    destruct (root_gref t0 _ H6 Hroot) as [Hg Hd].
    pose proof (parse_segments_grouped_safe hl7_only hl7_only_hl7 t0 H1 H2 H3 H4 H7 lvl e
                  (leaf_enc v lvl e) (leaf_enc_safe v lvl e) _ (lstrip text) Hg Hd) as Sg.
    destruct (parse_segments_grouped t0 lvl e (leaf_enc v lvl e) (st_reference st) (lstrip text))
      as [ks|[c| |[]|]] eqn:Eg; try discriminate Ek; try (exfalso; exact Sg).
    injection Ek as <-. split; [exact Sg|].
    exact (grouped_msh_head t0 lvl e (leaf_enc v lvl e) H4 srows row1 row2 inf1 inf2 Hl Hn1 Hn2 Hr1 Hr2 (lstrip text)
             ps seps tail Ep Estrip Htail Hns Hfs Hsp Hlen Htake _ ks Hg (root_msh_top t0 _ H8 Hroot) Eg). }
  destruct Hkids as [Henc Hhead].
  unfold enc_message. cbn [m_children m_st].
  destruct (message_ec_total (t_version t0) e (mk_message (m_name m0) (m_st m0) kids) Hhead) as [e' ->].
  cbn [bind]. apply enc_children_total. rewrite Forall_forall in *. intros n Hn.
  apply (nall_impl (encodable t0)); [|exact (Henc n Hn)]. intros s Hs. exact (Hs e' false).
Qed.
Print Assumptions parse_message_encodes.

(* B1 + B2 together, for the default path *)
Corollary parse_message_grouped_total dflt lvl text :
  (exists t m x, parse_message tables_of dflt lvl true text = Ok (t, m) /\ enc_message t lvl m = Ok x) \/
  (exists c, parse_message tables_of dflt lvl true text = Err (HL7 c)).
Proof.
  destruct (parse_message_grouped_outcome dflt lvl text) as [[[t m] H]|[c H]]; [left|right; eauto].
  destruct (parse_message_encodes dflt lvl true text t m H) as [x Hx]. eauto.
Qed.
Print Assumptions parse_message_grouped_total.
