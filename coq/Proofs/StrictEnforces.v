(* C05, "an element accepted by STRICT construction never draws a validator error other than a
   missing required child", segment level: for every text, every delimiter set and ANY leaf function,
       parse_segment t STRICT e leaf text None = Ok s -> validate_errors t e' s = Ok errs ->
       Forall is_missing_required errs
   under two exact side conditions on the parsed segment (both are genuine findings, refuted below
   without them): a segment that is not a Z-segment has no field beyond its table (finding F14: an
   open-ended segment admits SEG_k for any k, the validator calls it an invalid child), and the
   fields of a Z-segment are Z-fields (the Z-SEGMENT test is name[0]=='Z' and len 3, the Z-FIELD test
   is the regex ^z[a-z1-9]{2}_\d+$: 'Z0X|a' is parsed into a plain 'varies' field Z0X_1 which the
   validator cannot find in the tables: "Invalid element found").
   The proof mirrors Proofs/ValidateTotal.v: what STRICT construction and STRICT admission
   guarantee of the tree (datatype = the datatype of the reference, no unknown child below a complex
   parent, every child declared by the parent's structure, cardinalities within the maximum) is
   exactly what the validator checks besides the minimum cardinalities. *)
From Coq Require Import List Bool Arith ZArith NArith Lia Init.Byte.
From HL7 Require Import Lib.Str Model.Ec Model.Result Model.Ref Model.Tree Model.Parser Model.Encode
     Model.MsgTree Model.Validate Model.Wf.
From HL7 Require Import Proofs.RoundTripStr Proofs.RoundTripCore Proofs.RoundTripSeg Proofs.NoDrop Proofs.NoCrash
     Proofs.StrictSubset Proofs.ValidateTotal.
From HL7 Require Proofs.ValidateFacts Proofs.EncodeLeaves.
Import ListNotations.
Open Scope bs_scope.
Open Scope res_scope.

Definition is_missing_required (x : verr) : Prop := match x with MissingRequired _ _ => True | _ => False end.
Definition okmsg (m : vmsg) : Prop := match m with VE x => is_missing_required x | VW _ => True end.
Definition oklog (l : list vmsg) : Prop := Forall okmsg l.

Lemma oklog_errors l : oklog l -> Forall is_missing_required (errors_of l).
Proof.
  induction 1 as [|m l Hm _ IH]; [constructor|]. unfold errors_of. cbn [flat_map].
  destruct m as [x|w]; cbn [app]; [constructor; [exact Hm|exact IH]|exact IH].
Qed.

Lemma oklog_app a b : oklog a -> oklog b -> oklog (a ++ b).
Proof. intros Ha Hb. apply Forall_app. now split. Qed.

Lemma seq_res_oklog (l : list (result (list vmsg))) b :
  seq_res l = Ok b -> (forall r a, In r l -> r = Ok a -> oklog a) -> oklog b.
Proof.
  revert b. induction l as [|r l IH]; intros b H Hl; cbn [seq_res] in H.
  - injection H as <-. constructor.
  - destruct r as [a|x]; [|discriminate]. destruct (seq_res l) as [b'|x]; [|discriminate]. injection H as <-.
    apply oklog_app; [exact (Hl (Ok a) a (or_introl eq_refl) eq_refl)|].
    apply IH; [reflexivity|]. intros r a' Hr. apply Hl. now right.
Qed.

Lemma dedup_nil' l : dedup l = [] -> l = [].
Proof. destruct l; [reflexivity|discriminate]. Qed.

Lemma foreign_nil {A} (nm : A -> option str) (isz : A -> bool) names : forall kids,
  (forall k, In k kids -> isz k = false -> omem (nm k) names = true) ->
  filter (fun n => negb (omem n names)) (map nm (filter (fun k => negb (isz k)) kids)) = [].
Proof.
  induction kids as [|k kids IH]; intros H; [reflexivity|]. cbn [filter].
  assert (IH' := IH (fun k' Hk' => H k' (or_intror Hk'))).
  destruct (isz k) eqn:Z; cbn [negb]; [exact IH'|]. cbn [map filter].
  rewrite (H k (or_introl eq_refl) Z). cbn [negb]. exact IH'.
Qed.

Lemma check_repetitions_oklog pname cnt mn mx cname :
  mx = (-1)%Z \/ (Z.of_nat cnt <= mx)%Z -> oklog (check_repetitions pname cnt mn mx cname).
Proof.
  intros H. unfold check_repetitions.
  destruct (Z.eqb_spec mx (-1)) as [E|N]; cbn [negb].
  - destruct (Z.of_nat cnt <? mn)%Z; repeat constructor.
  - destruct (Z.of_nat cnt <? mn)%Z; [repeat constructor|].
    destruct (Z.gtb_spec (Z.of_nat cnt) mx); [lia|constructor].
Qed.

(* the children of one element against the rows of its reference: only minimum cardinalities can fail *)
Lemma check_seq_oklog {A} (nm : A -> option str) isz resolve vkid pname kids rows l :
  check_seq nm isz resolve vkid pname kids rows = Ok l ->
  (forall k, In k kids -> isz k = false -> omem (nm k) (row_names rows) = true) ->
  (forall vc n, In (Some vc) rows -> resolve (vc_name vc) = Some n ->
     vc_mx vc = (-1)%Z \/ (Z.of_nat (length (named_kids nm kids n)) <= vc_mx vc)%Z) ->
  (forall vc n k a, In (Some vc) rows -> resolve (vc_name vc) = Some n -> In k kids -> is_named nm n k = true ->
     vkid (Some (vc_ref vc)) k = Ok a -> oklog a) ->
  (forall k a, In k kids -> isz k = true -> vkid None k = Ok a -> oklog a) ->
  oklog l.
Proof.
  intros H Hdecl Hcard Hkid Hz. unfold check_seq in H.
  match type of H with context [seq_res (map ?f rows)] => destruct (seq_res (map f rows)) as [a|x] eqn:Ea end;
    cbn [bind] in H; [|discriminate].
  match type of H with context [seq_res (map ?f kids)] => destruct (seq_res (map f kids)) as [z|x] eqn:Ez end;
    cbn [bind] in H; [|discriminate].
  injection H as <-. apply oklog_app; [|apply oklog_app].
  - unfold check_allowed, foreign_names. rewrite (foreign_nil nm isz (row_names rows) kids Hdecl). constructor.
  - apply (seq_res_oklog _ _ Ea). intros r a0 Hr Er. apply in_map_iff in Hr. destruct Hr as [row [<- Hrow]].
    destruct row as [vc|]; [|discriminate]. cbn [check_row] in Er.
    destruct (resolve (vc_name vc)) as [n|] eqn:R; [|injection Er as <-; constructor].
    match type of Er with context [seq_res ?m] => destruct (seq_res m) as [b|x] eqn:Eb end; cbn [bind] in Er; [|discriminate].
    injection Er as <-. apply oklog_app.
    + apply check_repetitions_oklog. exact (Hcard vc n Hrow R).
    + apply (seq_res_oklog _ _ Eb). intros r a1 Hr Er. apply in_map_iff in Hr. destruct Hr as [k [<- Hk]].
      destruct (is_named nm n k) eqn:N; [|injection Er as <-; constructor].
      exact (Hkid vc n k a1 Hrow R Hk N Er).
  - apply (seq_res_oklog _ _ Ez). intros r a0 Hr Er. apply in_map_iff in Hr. destruct Hr as [k [<- Hk]].
    destruct (isz k) eqn:Zk; [|injection Er as <-; constructor]. exact (Hz k a0 Hk Zk Er).
Qed.

Section VS.
Variable t : tables.
Notation base := (base t).

(* ------------------------------------------------------------------ *)
(* the cardinalities _parse_structure records for contiguous rows        *)

Fixpoint row_cards (prefix : str) (a : nat) (rows : list srow) : list (str * (Z * Z)) :=
  match rows with
  | [] => []
  | r :: rest => match row_name r with
                 | Some (_, _, mn, mx) => (name_idx prefix a, (mn, mx)) :: row_cards prefix (S a) rest
                 | None => []
                 end
  end.

Lemma parse_children_reps prefix k : forall rows a (seen ord : list str) (byn : list (str * sentry))
    (byl : list (option str * sentry)) (reps : list (str * (Z * Z))),
  rows_contiguous prefix k a rows = true -> rows_resolved t rows ->
  (forall j, a <= j -> slookup (name_idx prefix j) byn = None) ->
  exists o b l, parse_children (map (row_view t) rows) seen ord byn byl reps =
                Ok (o, b, l, rev reps ++ row_cards prefix a rows).
Proof.
  induction rows as [|x rows IH]; intros a seen ord byn byl reps Hc Hr Hb.
  - cbn. rewrite app_nil_r. eauto.
  - destruct (row_view_ok t prefix k a x rows Hc (Hr x (or_introl eq_refl))) as [r [mn [mx [Hv [Hx Hc']]]]].
    destruct (row_view_ref t x _ Hv) as [_ Hrn]. cbn [vc_kind vc_name vc_mn vc_mx] in Hrn.
    cbn [map parse_children]. rewrite Hv. rewrite (Hb a (le_n a)).
    set (e0 := mk_sentry (name_idx prefix a) r k).
    destruct (IH (S a) (name_idx prefix a :: seen) (name_idx prefix a :: ord) ((name_idx prefix a, e0) :: byn)
                 (match ref_long r with Some l => (l, e0) :: byl | None => byl end)
                 ((name_idx prefix a, (mn, mx)) :: reps) Hc') as [o [b [l E]]].
    + intros y Hy. apply Hr. now right.
    + intros j Hj. rewrite slookup_cons_ne.
      * apply Hb. lia.
      * intros E. apply name_idx_inj in E. lia.
    + exists o, b, l. eapply eq_trans; [exact E|]. cbn [rev row_cards]. rewrite Hrn. now rewrite <- app_assoc.
Qed.

Lemma row_cards_keys prefix k : forall rows a, rows_contiguous prefix k a rows = true ->
  map fst (row_cards prefix a rows) = map (name_idx prefix) (seq a (length rows)).
Proof.
  induction rows as [|x rows IH]; intros a Hc; [reflexivity|]. cbn [rows_contiguous] in Hc. cbn [row_cards].
  destruct (row_name x) as [[[[k' nm] mn] mx]|]; [|discriminate].
  repeat (apply andb_prop in Hc; destruct Hc as [Hc ?Hc]). cbn [map fst length seq]. f_equal. now apply IH.
Qed.

Lemma row_cards_lookup prefix k : forall rows a j row k' nm mn mx, rows_contiguous prefix k a rows = true ->
  nth_error rows j = Some row -> row_name row = Some (k', nm, mn, mx) ->
  slookup (name_idx prefix (a + j)) (row_cards prefix a rows) = Some (mn, mx) /\
  (0 <= mn)%Z /\ (mx = -1 \/ mn <= mx)%Z.
Proof.
  induction rows as [|x rows IH]; intros a j row k' nm mn mx Hc Hn Hrn; [destruct j; discriminate|].
  cbn [rows_contiguous] in Hc. cbn [row_cards].
  destruct (row_name x) as [[[[k0 nm0] mn0] mx0]|] eqn:E; [|discriminate].
  repeat (apply andb_prop in Hc; destruct Hc as [Hc ?Hc]).
  destruct j as [|j].
  - cbn in Hn. injection Hn as <-. rewrite E in Hrn. injection Hrn as _ _ <- <-. rewrite Nat.add_0_r.
    split; [apply slookup_cons_eq|]. split; [now apply Z.leb_le|].
    apply orb_prop in Hc1. destruct Hc1 as [H|H]; [left; now apply Z.eqb_eq|right; now apply Z.leb_le].
  - cbn [nth_error] in Hn. rewrite slookup_cons_ne.
    + replace (a + S j) with (S a + j) by lia. now apply (IH (S a) j row k' nm mn mx).
    + intros E'. apply name_idx_inj in E'. lia.
Qed.

(* the structure of a reference with contiguous rows remembers every row's cardinalities *)
Lemma rows_reps r c rows info prefix k st :
  view_of t r = VSeq c (map (row_view t) rows) info ->
  rows_contiguous prefix k 1 rows = true -> rows_resolved t rows -> parse_structure t r = Ok st ->
  forall j row k' nm mn mx, nth_error rows j = Some row -> row_name row = Some (k', nm, mn, mx) ->
    repetitions_of st (name_idx prefix (S j)) = Some (mn, mx) /\ (0 <= mn)%Z /\ (mx = -1 \/ mn <= mx)%Z.
Proof.
  intros Hv Hc Hr Hp j row k' nm mn mx Hn Hrn. unfold parse_structure in Hp. rewrite Hv in Hp.
  destruct (parse_children_reps prefix k rows 1 [] [] [] [] [] Hc Hr) as [o [b [l E]]]; [reflexivity|].
  rewrite E in Hp. injection Hp as <-. unfold repetitions_of. cbn [st_repetitions rev app].
  rewrite slookup_rev_nodup by (rewrite (row_cards_keys prefix k) by exact Hc; apply name_idx_NoDup).
  exact (row_cards_lookup prefix k rows 1 j row k' nm mn mx Hc Hn Hrn).
Qed.

(* ------------------------------------------------------------------ *)
(* trees that STRICT construction builds, as the validator sees them      *)

Definition ref_dt (r : sref) : option str := match ref_info r with Some i => i_dt i | None => None end.

(* the children of an element with structure st: all declared, none above its maximum *)
Definition kids_ok {A} (nm : A -> option str) (st : structure) (kids : list A) : Prop :=
  (forall k, In k kids -> exists n, nm k = Some n /\ by_name st n <> None) /\
  (forall n mn mx, repetitions_of st n = Some (mn, mx) -> (mx > -1)%Z ->
                   (Z.of_nat (count_named nm (Some n) kids) <= mx)%Z).

Definition csub (s : sub) : Prop :=
  sub_unknown s = false /\
  exists n, sc_name s = Some n /\ forall r, slookup n (t_components t) = Some r -> sc_dt s = ref_dt r.

Definition ccomp (c : comp) : Prop :=
  comp_unknown c = false /\
  exists n, c_name c = Some n /\
    forall r, slookup n (t_components t) = Some r ->
      c_dt c = ref_dt r /\
      forall i, r = SSeqDt i -> exists st, c_st c = Some st /\ parse_structure t r = Ok st /\
                                kids_ok sc_name st (c_children c) /\ Forall csub (c_children c).

Definition cfield (r : sref) (f : field) : Prop :=
  field_unknown f = false /\ f_dt f = ref_dt r /\ enc_ok t f /\
  forall i, r = SSeqDt i -> exists st, f_st f = Some st /\ parse_structure t r = Ok st /\
                            kids_ok c_name st (f_children f) /\ Forall ccomp (f_children f).

Hypothesis Hgc : forall n r, slookup n (t_components t) = Some r -> gref t r.

Lemma check_leaf_oklog pname name dt enc i l : dt = i_dt i -> check_leaf t pname name dt enc i = Ok l -> oklog l.
Proof.
  intros -> H. unfold check_leaf in H. rewrite ValidateFacts.opt_eqb_refl in H.
  match type of H with bind ?w _ = _ => destruct w as [w0|x] eqn:W end; cbn [bind] in H; [|discriminate].
  assert (Hw : oklog w0).
  { destruct (-1 <? i_maxlen i)%Z; [|injection W as <-; constructor].
    destruct enc as [s|x]; cbn [bind] in W; [|discriminate]. injection W as <-.
    destruct (i_maxlen i <? _)%Z; repeat constructor. }
  destruct (is_varies (i_dt i)); [injection H as <-; exact Hw|]. cbv zeta in H.
  destruct (i_dt i) as [dn|].
  - destruct (base (Some dn)); [injection H as <-; now rewrite app_nil_r|].
    destruct (slookup dn (t_structs t)); [destruct (Nat.leb _ _)|]; discriminate.
  - injection H as <-. now rewrite app_nil_r.
Qed.


(* the facts about a struct reference used below, in one place *)
Lemma struct_facts i : gref t (SSeqDt i) -> forall st, parse_structure t (SSeqDt i) = Ok st ->
  exists d rows, i_dt i = Some d /\ upper d = d /\ slookup d (t_structs t) = Some rows /\
    view_of t (SSeqDt i) = VSeq false (map (row_view t) rows) (Some i) /\
    rows_contiguous d CMP 1 rows = true /\ (forall row, In row rows -> crow t row) /\
    rows_structure t d CMP rows st /\
    (forall key en, by_name st key = Some en ->
       exists j row, nth_error rows j = Some row /\ key = name_idx d (S j) /\ row_ref t row = Some (se_ref en)).
Proof.
  intros G st Hp. pose proof G as G'. cbn [gref] in G'.
  destruct G' as [d [rows [Hd [_ [Hu [_ [Hl [Hc Hrows]]]]]]]].
  assert (Hv : view_of t (SSeqDt i) = VSeq false (map (row_view t) rows) (Some i)) by (cbn [view_of]; now rewrite Hd, Hl).
  destruct (rows_parse' t (SSeqDt i) false rows (Some i) d CMP Hv Hc (crows_resolved t rows Hrows)) as [st' [Hp' [_ [Hs Hk]]]].
  rewrite Hp in Hp'. injection Hp' as <-. exists d, rows. repeat (split; [assumption|]). exact Hk.
Qed.

Lemma named_count {A} (nm : A -> option str) kids n : length (named_kids nm kids n) = count_named nm (Some n) kids.
Proof. reflexivity. Qed.

(* the children of an element built on a struct reference, against the rows of that struct *)
Lemma struct_children_oklog {A} (nm : A -> option str) resolve vkid pname (kids : list A) i st l :
  gref t (SSeqDt i) -> parse_structure t (SSeqDt i) = Ok st -> kids_ok nm st kids ->
  (forall cname n x, upper cname = cname -> by_name st cname = Some x -> se_name x = cname ->
                     resolve cname = Some n -> n = cname) ->
  (forall k n r a, In k kids -> nm k = Some n -> slookup n (t_components t) = Some r -> vkid (Some r) k = Ok a -> oklog a) ->
  forall rows, view_of t (SSeqDt i) = VSeq false (map (row_view t) rows) (Some i) ->
  check_seq nm (fun _ => false) resolve vkid pname kids (map (row_view t) rows) = Ok l -> oklog l.
Proof.
  intros G Hp [Hdecl Hcard] Hres Hkid rows0 Hv0 H.
  destruct (struct_facts i G st Hp) as [d [rows [Hd [Hu [Hl [Hv [Hc [Hrows [Hrs Hk]]]]]]]]].
  rewrite Hv in Hv0. injection Hv0 as Hv0. apply (f_equal (fun x => x)) in Hv0.
  assert (Erows : map (row_view t) rows0 = map (row_view t) rows) by (symmetry; exact Hv0).
  rewrite Erows in H. clear Hv0 Erows rows0.
  assert (Hrow : forall vc, In (Some vc) (map (row_view t) rows) ->
            exists j row x, nth_error rows j = Some row /\ vc_name vc = name_idx d (S j) /\ upper (vc_name vc) = vc_name vc /\
              slookup (vc_name vc) (t_components t) = Some (vc_ref vc) /\
              by_name st (vc_name vc) = Some x /\ se_name x = vc_name vc /\
              repetitions_of st (vc_name vc) = Some (vc_mn vc, vc_mx vc) /\
              (vc_mx vc = -1 \/ 0 <= vc_mx vc)%Z).
  { intros vc Hvc. destruct (crow_view t rows vc Hrows Hvc) as [E [row [Hin Hrv]]].
    apply In_nth_error in Hin. destruct Hin as [j Hj].
    destruct (row_view_ref t row vc Hrv) as [Hrr Hrn].
    destruct (contiguous_nth d CMP rows 1 j row Hc Hj) as [k' [mn [mx [Hrn' _]]]].
    rewrite Hrn in Hrn'. injection Hrn' as _ Hm _ _. change (1 + j) with (S j) in Hm.
    destruct Hrs as [Ho Hb _]. pose proof (Hb j row (vc_ref vc) Hj Hrr) as B. rewrite <- Hm in B.
    destruct (rows_reps (SSeqDt i) false rows (Some i) d CMP st Hv Hc (crows_resolved t rows Hrows) Hp
                j row _ _ _ _ Hj Hrn) as [R [R0 R1]]. rewrite <- Hm in R.
    exists j, row, (mk_sentry (vc_name vc) (vc_ref vc) CMP).
    split; [exact Hj|]. split; [exact Hm|]. split; [now rewrite Hm, name_idx_upper, Hu|].
    split; [exact E|]. split; [exact B|]. split; [reflexivity|]. split; [exact R|]. lia. }
  apply (check_seq_oklog _ _ _ _ _ _ _ _ H).
  - intros k Hin _. destruct (Hdecl k Hin) as [n [Hn Hb]]. rewrite Hn. cbn [omem].
    destruct (by_name st n) as [en|] eqn:B; [|congruence].
    destruct (Hk n en B) as [j [row [Hj [-> Hrr]]]].
    destruct (Hrows row (nth_error_In _ _ Hj)) as [m [mn [mx [r' [-> E']]]]].
    destruct (contiguous_nth d CMP rows 1 j _ Hc Hj) as [k' [mn' [mx' [Hrn' _]]]].
    cbn [row_name] in Hrn'. injection Hrn' as _ Hm _ _. change (1 + j) with (S j) in Hm. subst m.
    apply ValidateFacts.smem_In. unfold row_names. apply in_flat_map.
    exists (Some (mk_vchild (name_idx d (S j)) r' mn mx CMP)). split; [|now left].
    apply in_map_iff. exists (SByName CMP (name_idx d (S j)) mn mx). split; [|exact (nth_error_In _ _ Hj)].
    cbn [row_view table_of]. now rewrite E'.
  - intros vc n Hvc R. destruct (Hrow vc Hvc) as [j [row [x [Hj [Hm [Un [E [B [Hx [Rp Hmx]]]]]]]]]].
    assert (n = vc_name vc) by (apply (Hres _ n x Un B Hx R)). subst n.
    destruct Hmx as [Hmx|Hmx]; [now left|right]. rewrite named_count. apply (Hcard _ _ _ Rp). lia.
  - intros vc n k a Hvc R Hin Hnamed Ha. destruct (Hrow vc Hvc) as [j [row [x [Hj [Hm [Un [E [B [Hx _]]]]]]]]].
    assert (n = vc_name vc) by (apply (Hres _ n x Un B Hx R)). subst n.
    unfold is_named in Hnamed. apply ValidateFacts.opt_eqb_true in Hnamed.
    exact (Hkid k _ _ a Hin Hnamed E Ha).
  - intros k a _ Hf. discriminate.
Qed.

Section Val.
Variable e : ec.

Lemma v_sub_oklog pname r s n l : gref t r -> csub s -> sc_name s = Some n -> slookup n (t_components t) = Some r ->
  v_sub t pname (Some r) s = Ok l -> oklog l.
Proof.
  intros G [Hu [n' [Hn Hd]]] Hn' E H. rewrite Hn in Hn'. injection Hn' as ->.
  unfold v_sub in H. rewrite Hu in H. cbn [ref_or_load] in H.
  destruct r as [i|i|c cs oi|]; cbn [gref] in G; try tauto.
  - cbn [view_of] in H. apply (check_leaf_oklog _ _ _ _ _ _ (Hd _ E) H).
  - destruct G as [d [rows [Hdd [_ [_ [_ [Hl _]]]]]]]. cbn [view_of] in H. rewrite Hdd, Hl in H.
    apply (check_seq_oklog _ _ _ _ _ _ _ _ H).
    + intros k [].
    + intros vc n0 _ R. discriminate.
    + intros vc n0 k a _ R. discriminate.
    + intros k a [].
Qed.

Lemma resolve_comp_canon c st cname n x : upper cname = cname -> c_st c = Some st -> st_ordered st <> None ->
  by_name st cname = Some x -> se_name x = cname -> resolve_comp t c cname = Some n -> n = cname.
Proof.
  intros Hu Hs Ho Hb Hx. unfold resolve_comp.
  destruct (has_named sc_name (c_children c) cname); [intros H; injection H as <-; exact Hu|].
  rewrite Hu. unfold find_complex, struct_hit, has_map. rewrite Hs.
  destruct (st_ordered st); [|congruence]. cbn [opt_is_some opt_is_none negb]. rewrite Hb. cbn [option_map]. rewrite Hx.
  intros H. injection H as <-. exact Hu.
Qed.

Lemma v_comp_oklog pname r c n l : gref t r -> ccomp c -> c_name c = Some n -> slookup n (t_components t) = Some r ->
  v_comp t e pname (Some r) c = Ok l -> oklog l.
Proof.
  intros G [Hu [n' [Hn Hd]]] Hn' E H. rewrite Hn in Hn'. injection Hn' as ->.
  destruct (Hd _ E) as [Hdt Hseq].
  unfold v_comp in H. rewrite Hu in H. cbn [ref_or_load] in H.
  destruct r as [i|i|c0 cs oi|]; cbn [gref] in G; try tauto.
  - cbn [view_of] in H. apply (check_leaf_oklog _ _ _ _ _ _ Hdt H).
  - destruct (Hseq i eq_refl) as [st [Hst [Hp [Hk Hsubs]]]].
    destruct (struct_facts i G st Hp) as [d [rows [_ [_ [_ [Hv [_ [_ [[Ho _ _] _]]]]]]]]].
    rewrite Hv in H. unfold comp_seq in H.
    refine (struct_children_oklog sc_name _ _ _ _ i st l G Hp Hk _ _ rows Hv H).
    + intros cname n0 x Un B Hx R. apply (resolve_comp_canon c st cname n0 x Un Hst); [rewrite Ho; discriminate|exact B|exact Hx|exact R].
    + intros k n0 r0 a Hin Hn0 E0 Ha. rewrite Forall_forall in Hsubs.
      exact (v_sub_oklog _ r0 k n0 a (Hgc _ _ E0) (Hsubs k Hin) Hn0 E0 Ha).
Qed.

Lemma v_field_oklog pname r f l : gref t r -> cfield r f -> field_is_z f = false -> f_name f <> None ->
  v_field t e pname (Some r) f = Ok l -> oklog l.
Proof.
  intros G [Hu [Hdt [He Hseq]]] Hz Hn H.
  unfold v_field in H. rewrite Hu, Hz in H. cbn [ref_or_load] in H.
  destruct r as [i|i|c0 cs oi|]; cbn [gref] in G; try tauto.
  - cbn [view_of] in H. apply (check_leaf_oklog _ _ _ _ _ _ Hdt H).
  - destruct (Hseq i eq_refl) as [st [Hst [Hp [Hk Hcomps]]]].
    destruct (struct_facts i G st Hp) as [d [rows [_ [_ [_ [Hv [_ [_ [[Ho _ _] _]]]]]]]]].
    rewrite Hv in H. unfold field_seq in H.
    refine (struct_children_oklog c_name _ _ _ _ i st l G Hp Hk _ _ rows Hv H).
    + intros cname n0 x Un B Hx R. apply (resolve_field_canon t f cname n0 Un); [|exact R].
      right. exists st, x. split; [exact Hst|]. split; [unfold has_map; now rewrite Ho|]. auto.
    + intros k n0 r0 a Hin Hn0 E0 Ha. rewrite Forall_forall in Hcomps.
      exact (v_comp_oklog _ r0 k n0 a (Hgc _ _ E0) (Hcomps k Hin) Hn0 E0 Ha).
Qed.

End Val.
End VS.
