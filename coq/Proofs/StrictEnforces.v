(* C05, "an element accepted by STRICT construction never draws a validator error other than a
   missing required child", segment level: for every text, every delimiter set and ANY leaf function,
       parse_segment t STRICT e leaf text None = Ok s -> validate_errors t e' s = Ok errs ->
       Forall is_missing_required errs
   under two exact side conditions on the parsed segment (both are genuine findings, refuted below
   without them): a segment that is not a Z-segment has no field beyond its table (finding F14: an
   open-ended segment accepts SEG_k for any k, the validator calls it an invalid child), and the
   fields of a Z-segment are Z-fields (the Z-SEGMENT test is name[0]=='Z' and len 3, the Z-FIELD test
   is the regex ^z[a-z1-9]{2}_\d+$: 'Z0X|a' is parsed into a plain 'varies' field Z0X_1 which the
   validator cannot find in the tables: "Invalid element found").
   The proof mirrors Proofs/ValidateTotal.v: what STRICT construction and STRICT acceptance
   guarantee of the tree (datatype = the datatype of the reference, no unknown child below a complex
   parent, every child declared by the parent's structure, cardinalities within the maximum) is
   exactly what the validator checks besides the minimum cardinalities. *)
From Coq Require Import List Bool Arith ZArith NArith Lia Init.Byte.
From HL7 Require Import Lib.Str Model.Ec Model.Result Model.Ref Model.Tree Model.Parser Model.Encode
     Model.MsgTree Model.Validate Model.Wf.
From HL7 Require Import Proofs.RoundTripStr Proofs.RoundTripCore Proofs.RoundTripSeg Proofs.NoDrop Proofs.NoCrash
     Proofs.StrictSubset Proofs.ValidateTotal.
From HL7 Require Proofs.ValidateFacts Proofs.EncodeLeaves Proofs.StrictSim Proofs.RoundTripMsg.
Import ListNotations.
Open Scope bs_scope.
Open Scope res_scope.

Definition is_missing_required (x : verr) : Prop := match x with MissingRequired _ _ => True | _ => False end.
Definition okmsg (m : vmsg) : Prop := match m with VE x => is_missing_required x | VW _ => True end.
Definition oklog (l : list vmsg) : Prop := Forall okmsg l.

Lemma oklog_errors l : oklog l -> Forall is_missing_required (errors_of l).
Proof.
  induction 1 as [|m l Hm _ IH]; [constructor|]. unfold errors_of. cbn [flat_map].
  destruct m as [x|w]; cbn [app]; [constructor; [exact Hm|exact IH]|exact IH].
Qed.

Lemma oklog_app a b : oklog a -> oklog b -> oklog (a ++ b).
Proof. intros Ha Hb. apply Forall_app. now split. Qed.

Lemma seq_res_oklog (l : list (result (list vmsg))) b :
  seq_res l = Ok b -> (forall r a, In r l -> r = Ok a -> oklog a) -> oklog b.
Proof.
  revert b. induction l as [|r l IH]; intros b H Hl; cbn [seq_res] in H.
  - injection H as <-. constructor.
  - destruct r as [a|x]; [|discriminate]. destruct (seq_res l) as [b'|x]; [|discriminate]. injection H as <-.
    apply oklog_app; [exact (Hl (Ok a) a (or_introl eq_refl) eq_refl)|].
    apply IH; [reflexivity|]. intros r a' Hr. apply Hl. now right.
Qed.

Lemma dedup_nil' l : dedup l = [] -> l = [].
Proof. destruct l; [reflexivity|discriminate]. Qed.

Lemma foreign_nil {A} (nm : A -> option str) (isz : A -> bool) names : forall kids,
  (forall k, In k kids -> isz k = false -> omem (nm k) names = true) ->
  filter (fun n => negb (omem n names)) (map nm (filter (fun k => negb (isz k)) kids)) = [].
Proof.
  induction kids as [|k kids IH]; intros H; [reflexivity|]. cbn [filter].
  assert (IH' := IH (fun k' Hk' => H k' (or_intror Hk'))).
  destruct (isz k) eqn:Z; cbn [negb]; [exact IH'|]. cbn [map filter].
  rewrite (H k (or_introl eq_refl) Z). cbn [negb]. exact IH'.
Qed.

Lemma check_repetitions_oklog pname cnt mn mx cname :
  mx = (-1)%Z \/ (Z.of_nat cnt <= mx)%Z -> oklog (check_repetitions pname cnt mn mx cname).
Proof.
  intros H. unfold check_repetitions.
  destruct (Z.eqb_spec mx (-1)) as [E|N]; cbn [negb].
  - destruct (Z.of_nat cnt <? mn)%Z; repeat constructor.
  - destruct (Z.of_nat cnt <? mn)%Z; [repeat constructor|].
    destruct (Z.gtb_spec (Z.of_nat cnt) mx); [lia|constructor].
Qed.

(* the children of one element against the rows of its reference: only minimum cardinalities can fail *)
Lemma check_seq_oklog {A} (nm : A -> option str) isz resolve vkid pname kids rows l :
  check_seq nm isz resolve vkid pname kids rows = Ok l ->
  (forall k, In k kids -> isz k = false -> omem (nm k) (row_names rows) = true) ->
  (forall vc n, In (Some vc) rows -> resolve (vc_name vc) = Some n ->
     vc_mx vc = (-1)%Z \/ (Z.of_nat (length (named_kids nm kids n)) <= vc_mx vc)%Z) ->
  (forall vc n k a, In (Some vc) rows -> resolve (vc_name vc) = Some n -> In k kids -> is_named nm n k = true ->
     vkid (Some (vc_ref vc)) k = Ok a -> oklog a) ->
  (forall k a, In k kids -> isz k = true -> vkid None k = Ok a -> oklog a) ->
  oklog l.
Proof.
  intros H Hdecl Hcard Hkid Hz. unfold check_seq in H.
  match type of H with context [seq_res (map ?f rows)] => destruct (seq_res (map f rows)) as [a|x] eqn:Ea end;
    cbn [bind] in H; [|discriminate].
  match type of H with context [seq_res (map ?f kids)] => destruct (seq_res (map f kids)) as [z|x] eqn:Ez end;
    cbn [bind] in H; [|discriminate].
  injection H as <-. apply oklog_app; [|apply oklog_app].
  - unfold check_allowed, foreign_names. rewrite (foreign_nil nm isz (row_names rows) kids Hdecl). constructor.
  - apply (seq_res_oklog _ _ Ea). intros r a0 Hr Er. apply in_map_iff in Hr. destruct Hr as [row [<- Hrow]].
    destruct row as [vc|]; [|discriminate]. cbn [check_row] in Er.
    destruct (resolve (vc_name vc)) as [n|] eqn:R; [|injection Er as <-; constructor].
    match type of Er with context [seq_res ?m] => destruct (seq_res m) as [b|x] eqn:Eb end; cbn [bind] in Er; [|discriminate].
    injection Er as <-. apply oklog_app.
    + apply check_repetitions_oklog. exact (Hcard vc n Hrow R).
    + apply (seq_res_oklog _ _ Eb). intros r a1 Hr Er. apply in_map_iff in Hr. destruct Hr as [k [<- Hk]].
      destruct (is_named nm n k) eqn:N; [|injection Er as <-; constructor].
      exact (Hkid vc n k a1 Hrow R Hk N Er).
  - apply (seq_res_oklog _ _ Ez). intros r a0 Hr Er. apply in_map_iff in Hr. destruct Hr as [k [<- Hk]].
    destruct (isz k) eqn:Zk; [|injection Er as <-; constructor]. exact (Hz k a0 Hk Zk Er).
Qed.

Section VS.
Variable t : tables.
Notation base := (base t).

(* ------------------------------------------------------------------ *)
(* the cardinalities _parse_structure records for contiguous rows        *)

Fixpoint row_cards (prefix : str) (a : nat) (rows : list srow) : list (str * (Z * Z)) :=
  match rows with
  | [] => []
  | r :: rest => match row_name r with
                 | Some (_, _, mn, mx) => (name_idx prefix a, (mn, mx)) :: row_cards prefix (S a) rest
                 | None => []
                 end
  end.

Lemma parse_children_reps prefix k : forall rows a (seen ord : list str) (byn : list (str * sentry))
    (byl : list (option str * sentry)) (reps : list (str * (Z * Z))),
  rows_contiguous prefix k a rows = true -> rows_resolved t rows ->
  (forall j, a <= j -> slookup (name_idx prefix j) byn = None) ->
  exists o b l, parse_children (map (row_view t) rows) seen ord byn byl reps =
                Ok (o, b, l, rev reps ++ row_cards prefix a rows).
Proof.
  induction rows as [|x rows IH]; intros a seen ord byn byl reps Hc Hr Hb.
  - cbn. rewrite app_nil_r. eauto.
  - destruct (row_view_ok t prefix k a x rows Hc (Hr x (or_introl eq_refl))) as [r [mn [mx [Hv [Hx Hc']]]]].
    destruct (row_view_ref t x _ Hv) as [_ Hrn]. cbn [vc_kind vc_name vc_mn vc_mx] in Hrn.
    cbn [map parse_children]. rewrite Hv. rewrite (Hb a (le_n a)).
    set (e0 := mk_sentry (name_idx prefix a) r k).
    destruct (IH (S a) (name_idx prefix a :: seen) (name_idx prefix a :: ord) ((name_idx prefix a, e0) :: byn)
                 (match ref_long r with Some l => (l, e0) :: byl | None => byl end)
                 ((name_idx prefix a, (mn, mx)) :: reps) Hc') as [o [b [l E]]].
    + intros y Hy. apply Hr. now right.
    + intros j Hj. rewrite slookup_cons_ne.
      * apply Hb. lia.
      * intros E. apply name_idx_inj in E. lia.
    + exists o, b, l. eapply eq_trans; [exact E|]. cbn [rev row_cards]. rewrite Hrn. now rewrite <- app_assoc.
Qed.

Lemma row_cards_keys prefix k : forall rows a, rows_contiguous prefix k a rows = true ->
  map fst (row_cards prefix a rows) = map (name_idx prefix) (seq a (length rows)).
Proof.
  induction rows as [|x rows IH]; intros a Hc; [reflexivity|]. cbn [rows_contiguous] in Hc. cbn [row_cards].
  destruct (row_name x) as [[[[k' nm] mn] mx]|]; [|discriminate].
  repeat (apply andb_prop in Hc; destruct Hc as [Hc ?Hc]). cbn [map fst length seq]. f_equal. now apply IH.
Qed.

Lemma row_cards_lookup prefix k : forall rows a j row k' nm mn mx, rows_contiguous prefix k a rows = true ->
  nth_error rows j = Some row -> row_name row = Some (k', nm, mn, mx) ->
  slookup (name_idx prefix (a + j)) (row_cards prefix a rows) = Some (mn, mx) /\
  (0 <= mn)%Z /\ (mx = -1 \/ mn <= mx)%Z.
Proof.
  induction rows as [|x rows IH]; intros a j row k' nm mn mx Hc Hn Hrn; [destruct j; discriminate|].
  cbn [rows_contiguous] in Hc. cbn [row_cards].
  destruct (row_name x) as [[[[k0 nm0] mn0] mx0]|] eqn:E; [|discriminate].
  repeat (apply andb_prop in Hc; destruct Hc as [Hc ?Hc]).
  destruct j as [|j].
  - cbn in Hn. injection Hn as <-. rewrite E in Hrn. injection Hrn as _ _ <- <-. rewrite Nat.add_0_r.
    split; [apply slookup_cons_eq|]. split; [now apply Z.leb_le|].
    apply orb_prop in Hc1. destruct Hc1 as [H|H]; [left; now apply Z.eqb_eq|right; now apply Z.leb_le].
  - cbn [nth_error] in Hn. rewrite slookup_cons_ne.
    + replace (a + S j) with (S a + j) by lia. now apply (IH (S a) j row k' nm mn mx).
    + intros E'. apply name_idx_inj in E'. lia.
Qed.

(* the structure of a reference with contiguous rows remembers every row's cardinalities *)
Lemma rows_reps r c rows info prefix k st :
  view_of t r = VSeq c (map (row_view t) rows) info ->
  rows_contiguous prefix k 1 rows = true -> rows_resolved t rows -> parse_structure t r = Ok st ->
  forall j row k' nm mn mx, nth_error rows j = Some row -> row_name row = Some (k', nm, mn, mx) ->
    repetitions_of st (name_idx prefix (S j)) = Some (mn, mx) /\ (0 <= mn)%Z /\ (mx = -1 \/ mn <= mx)%Z.
Proof.
  intros Hv Hc Hr Hp j row k' nm mn mx Hn Hrn. unfold parse_structure in Hp. rewrite Hv in Hp.
  destruct (parse_children_reps prefix k rows 1 [] [] [] [] [] Hc Hr) as [o [b [l E]]]; [reflexivity|].
  rewrite E in Hp. injection Hp as <-. unfold repetitions_of. cbn [st_repetitions rev app].
  rewrite slookup_rev_nodup by (rewrite (row_cards_keys prefix k) by exact Hc; apply name_idx_NoDup).
  exact (row_cards_lookup prefix k rows 1 j row k' nm mn mx Hc Hn Hrn).
Qed.

(* ------------------------------------------------------------------ *)
(* trees that STRICT construction builds, as the validator sees them      *)

Definition ref_dt (r : sref) : option str := match ref_info r with Some i => i_dt i | None => None end.

(* the children of an element with structure st: all declared, none above its maximum *)
Definition kids_ok {A} (nm : A -> option str) (st : structure) (kids : list A) : Prop :=
  (forall k, In k kids -> exists n, nm k = Some n /\ by_name st n <> None) /\
  (forall n mn mx, repetitions_of st n = Some (mn, mx) -> (mx > -1)%Z ->
                   (Z.of_nat (count_named nm (Some n) kids) <= mx)%Z).

Definition csub (s : sub) : Prop :=
  sub_unknown s = false /\
  exists n, sc_name s = Some n /\ forall r, slookup n (t_components t) = Some r -> sc_dt s = ref_dt r.

Definition ccomp (c : comp) : Prop :=
  comp_unknown c = false /\
  exists n, c_name c = Some n /\
    forall r, slookup n (t_components t) = Some r ->
      c_dt c = ref_dt r /\
      forall i, r = SSeqDt i -> exists st, c_st c = Some st /\ parse_structure t r = Ok st /\
                                kids_ok sc_name st (c_children c) /\ Forall csub (c_children c).

Definition cfield (r : sref) (f : field) : Prop :=
  field_unknown f = false /\ f_dt f = ref_dt r /\ enc_ok t f /\
  forall i, r = SSeqDt i -> exists st, f_st f = Some st /\ parse_structure t r = Ok st /\
                            kids_ok c_name st (f_children f) /\ Forall ccomp (f_children f).

Hypothesis Hgc : forall n r, slookup n (t_components t) = Some r -> gref t r.

Lemma check_leaf_oklog pname name dt enc i l : dt = i_dt i -> check_leaf t pname name dt enc i = Ok l -> oklog l.
Proof.
  intros -> H. unfold check_leaf in H. rewrite ValidateFacts.opt_eqb_refl in H.
  match type of H with bind ?w _ = _ => destruct w as [w0|x] eqn:W end; cbn [bind] in H; [|discriminate].
  assert (Hw : oklog w0).
  { destruct (-1 <? i_maxlen i)%Z; [|injection W as <-; constructor].
    destruct enc as [s|x]; cbn [bind] in W; [|discriminate]. injection W as <-.
    destruct (i_maxlen i <? _)%Z; repeat constructor. }
  destruct (is_varies (i_dt i)); [injection H as <-; exact Hw|]. cbv zeta in H.
  destruct (i_dt i) as [dn|].
  - destruct (base (Some dn)); [injection H as <-; now rewrite app_nil_r|].
    destruct (slookup dn (t_structs t)); [destruct (Nat.leb _ _)|]; discriminate.
  - injection H as <-. now rewrite app_nil_r.
Qed.


(* the facts about a struct reference used below, in one place *)
Lemma struct_facts i : gref t (SSeqDt i) -> forall st, parse_structure t (SSeqDt i) = Ok st ->
  exists d rows, i_dt i = Some d /\ upper d = d /\ slookup d (t_structs t) = Some rows /\
    view_of t (SSeqDt i) = VSeq false (map (row_view t) rows) (Some i) /\
    rows_contiguous d CMP 1 rows = true /\ (forall row, In row rows -> crow t row) /\
    rows_structure t d CMP rows st /\
    (forall key en, by_name st key = Some en ->
       exists j row, nth_error rows j = Some row /\ key = name_idx d (S j) /\ row_ref t row = Some (se_ref en)).
Proof.
  intros G st Hp. pose proof G as G'. cbn [gref] in G'.
  destruct G' as [d [rows [Hd [_ [Hu [_ [Hl [Hc Hrows]]]]]]]].
  assert (Hv : view_of t (SSeqDt i) = VSeq false (map (row_view t) rows) (Some i)) by (cbn [view_of]; now rewrite Hd, Hl).
  destruct (rows_parse' t (SSeqDt i) false rows (Some i) d CMP Hv Hc (crows_resolved t rows Hrows)) as [st' [Hp' [_ [Hs Hk]]]].
  rewrite Hp in Hp'. injection Hp' as <-. exists d, rows. repeat (split; [assumption|]). exact Hk.
Qed.

Lemma named_count {A} (nm : A -> option str) kids n : length (named_kids nm kids n) = count_named nm (Some n) kids.
Proof. reflexivity. Qed.

(* the children of an element built on a struct reference, against the rows of that struct *)
Lemma struct_children_oklog {A} (nm : A -> option str) resolve vkid pname (kids : list A) i st l :
  gref t (SSeqDt i) -> parse_structure t (SSeqDt i) = Ok st -> kids_ok nm st kids ->
  (forall cname n x, upper cname = cname -> by_name st cname = Some x -> se_name x = cname ->
                     resolve cname = Some n -> n = cname) ->
  (forall k n r a, In k kids -> nm k = Some n -> slookup n (t_components t) = Some r -> vkid (Some r) k = Ok a -> oklog a) ->
  forall rows, view_of t (SSeqDt i) = VSeq false (map (row_view t) rows) (Some i) ->
  check_seq nm (fun _ => false) resolve vkid pname kids (map (row_view t) rows) = Ok l -> oklog l.
Proof.
  intros G Hp [Hdecl Hcard] Hres Hkid rows0 Hv0 H.
  destruct (struct_facts i G st Hp) as [d [rows [Hd [Hu [Hl [Hv [Hc [Hrows [Hrs Hk]]]]]]]]].
  rewrite Hv in Hv0. injection Hv0 as Hv0. apply (f_equal (fun x => x)) in Hv0.
  assert (Erows : map (row_view t) rows0 = map (row_view t) rows) by (symmetry; exact Hv0).
  rewrite Erows in H. clear Hv0 Erows rows0.
  assert (Hrow : forall vc, In (Some vc) (map (row_view t) rows) ->
            exists j row x, nth_error rows j = Some row /\ vc_name vc = name_idx d (S j) /\ upper (vc_name vc) = vc_name vc /\
              slookup (vc_name vc) (t_components t) = Some (vc_ref vc) /\
              by_name st (vc_name vc) = Some x /\ se_name x = vc_name vc /\
              repetitions_of st (vc_name vc) = Some (vc_mn vc, vc_mx vc) /\
              (vc_mx vc = -1 \/ 0 <= vc_mx vc)%Z).
  { intros vc Hvc. destruct (crow_view t rows vc Hrows Hvc) as [E [row [Hin Hrv]]].
    apply In_nth_error in Hin. destruct Hin as [j Hj].
    destruct (row_view_ref t row vc Hrv) as [Hrr Hrn].
    destruct (contiguous_nth d CMP rows 1 j row Hc Hj) as [k' [mn [mx [Hrn' _]]]].
    rewrite Hrn in Hrn'. injection Hrn' as _ Hm _ _. change (1 + j) with (S j) in Hm.
    destruct Hrs as [Ho Hb _]. pose proof (Hb j row (vc_ref vc) Hj Hrr) as B. rewrite <- Hm in B.
    destruct (rows_reps (SSeqDt i) false rows (Some i) d CMP st Hv Hc (crows_resolved t rows Hrows) Hp
                j row _ _ _ _ Hj Hrn) as [R [R0 R1]]. rewrite <- Hm in R.
    exists j, row, (mk_sentry (vc_name vc) (vc_ref vc) CMP).
    split; [exact Hj|]. split; [exact Hm|]. split; [now rewrite Hm, name_idx_upper, Hu|].
    split; [exact E|]. split; [exact B|]. split; [reflexivity|]. split; [exact R|]. lia. }
  apply (check_seq_oklog _ _ _ _ _ _ _ _ H).
  - intros k Hin _. destruct (Hdecl k Hin) as [n [Hn Hb]]. rewrite Hn. cbn [omem].
    destruct (by_name st n) as [en|] eqn:B; [|congruence].
    destruct (Hk n en B) as [j [row [Hj [-> Hrr]]]].
    destruct (Hrows row (nth_error_In _ _ Hj)) as [m [mn [mx [r' [-> E']]]]].
    destruct (contiguous_nth d CMP rows 1 j _ Hc Hj) as [k' [mn' [mx' [Hrn' _]]]].
    cbn [row_name] in Hrn'. injection Hrn' as _ Hm _ _. change (1 + j) with (S j) in Hm. subst m.
    apply ValidateFacts.smem_In. unfold row_names. apply in_flat_map.
    exists (Some (mk_vchild (name_idx d (S j)) r' mn mx CMP)). split; [|now left].
    apply in_map_iff. exists (SByName CMP (name_idx d (S j)) mn mx). split; [|exact (nth_error_In _ _ Hj)].
    cbn [row_view table_of]. now rewrite E'.
  - intros vc n Hvc R. destruct (Hrow vc Hvc) as [j [row [x [Hj [Hm [Un [E [B [Hx [Rp Hmx]]]]]]]]]].
    assert (n = vc_name vc) by (apply (Hres _ n x Un B Hx R)). subst n.
    destruct Hmx as [Hmx|Hmx]; [now left|right]. rewrite named_count. apply (Hcard _ _ _ Rp). lia.
  - intros vc n k a Hvc R Hin Hnamed Ha. destruct (Hrow vc Hvc) as [j [row [x [Hj [Hm [Un [E [B [Hx _]]]]]]]]].
    assert (n = vc_name vc) by (apply (Hres _ n x Un B Hx R)). subst n.
    unfold is_named in Hnamed. apply ValidateFacts.opt_eqb_true in Hnamed.
    exact (Hkid k _ _ a Hin Hnamed E Ha).
  - intros k a _ Hf. discriminate.
Qed.

Section Val.
Variable e : ec.

Lemma v_sub_oklog pname r s n l : gref t r -> csub s -> sc_name s = Some n -> slookup n (t_components t) = Some r ->
  v_sub t pname (Some r) s = Ok l -> oklog l.
Proof.
  intros G [Hu [n' [Hn Hd]]] Hn' E H. rewrite Hn in Hn'. injection Hn' as ->.
  unfold v_sub in H. rewrite Hu in H. cbn [ref_or_load] in H.
  destruct r as [i|i|c cs oi|]; cbn [gref] in G; try tauto.
  - cbn [view_of] in H. apply (check_leaf_oklog _ _ _ _ _ _ (Hd _ E) H).
  - destruct G as [d [rows [Hdd [_ [_ [_ [Hl _]]]]]]]. cbn [view_of] in H. rewrite Hdd, Hl in H.
    apply (check_seq_oklog _ _ _ _ _ _ _ _ H).
    + intros k [].
    + intros vc n0 _ R. discriminate.
    + intros vc n0 k a _ R. discriminate.
    + intros k a [].
Qed.

Lemma resolve_comp_canon c st cname n x : upper cname = cname -> c_st c = Some st -> st_ordered st <> None ->
  by_name st cname = Some x -> se_name x = cname -> resolve_comp t c cname = Some n -> n = cname.
Proof.
  intros Hu Hs Ho Hb Hx. unfold resolve_comp.
  destruct (has_named sc_name (c_children c) cname); [intros H; injection H as <-; exact Hu|].
  rewrite Hu. unfold find_complex, struct_hit, has_map. rewrite Hs.
  destruct (st_ordered st); [|congruence]. cbn [opt_is_some opt_is_none negb]. rewrite Hb. cbn [option_map]. rewrite Hx.
  intros H. injection H as <-. exact Hu.
Qed.

Lemma v_comp_oklog pname r c n l : gref t r -> ccomp c -> c_name c = Some n -> slookup n (t_components t) = Some r ->
  v_comp t e pname (Some r) c = Ok l -> oklog l.
Proof.
  intros G [Hu [n' [Hn Hd]]] Hn' E H. rewrite Hn in Hn'. injection Hn' as ->.
  destruct (Hd _ E) as [Hdt Hseq].
  unfold v_comp in H. rewrite Hu in H. cbn [ref_or_load] in H.
  destruct r as [i|i|c0 cs oi|]; cbn [gref] in G; try tauto.
  - cbn [view_of] in H. apply (check_leaf_oklog _ _ _ _ _ _ Hdt H).
  - destruct (Hseq i eq_refl) as [st [Hst [Hp [Hk Hsubs]]]].
    destruct (struct_facts i G st Hp) as [d [rows [_ [_ [_ [Hv [_ [_ [[Ho _ _] _]]]]]]]]].
    rewrite Hv in H. unfold comp_seq in H.
    refine (struct_children_oklog sc_name _ _ _ _ i st l G Hp Hk _ _ rows Hv H).
    + intros cname n0 x Un B Hx R. apply (resolve_comp_canon c st cname n0 x Un Hst); [rewrite Ho; discriminate|exact B|exact Hx|exact R].
    + intros k n0 r0 a Hin Hn0 E0 Ha. rewrite Forall_forall in Hsubs.
      exact (v_sub_oklog _ r0 k n0 a (Hgc _ _ E0) (Hsubs k Hin) Hn0 E0 Ha).
Qed.

Lemma v_field_oklog pname r f l : gref t r -> cfield r f -> field_is_z f = false -> f_name f <> None ->
  v_field t e pname (Some r) f = Ok l -> oklog l.
Proof.
  intros G [Hu [Hdt [He Hseq]]] Hz Hn H.
  unfold v_field in H. rewrite Hu, Hz in H. cbn [ref_or_load] in H.
  destruct r as [i|i|c0 cs oi|]; cbn [gref] in G; try tauto.
  - cbn [view_of] in H. apply (check_leaf_oklog _ _ _ _ _ _ Hdt H).
  - destruct (Hseq i eq_refl) as [st [Hst [Hp [Hk Hcomps]]]].
    destruct (struct_facts i G st Hp) as [d [rows [_ [_ [_ [Hv [_ [_ [[Ho _ _] _]]]]]]]]].
    rewrite Hv in H. unfold field_seq in H.
    refine (struct_children_oklog c_name _ _ _ _ i st l G Hp Hk _ _ rows Hv H).
    + intros cname n0 x Un B Hx R. apply (resolve_field_canon t f cname n0 Un); [|exact R].
      right. exists st, x. split; [exact Hst|]. split; [unfold has_map; now rewrite Ho|]. auto.
    + intros k n0 r0 a Hin Hn0 E0 Ha. rewrite Forall_forall in Hcomps.
      exact (v_comp_oklog _ r0 k n0 a (Hgc _ _ E0) (Hcomps k Hin) Hn0 E0 Ha).
Qed.

End Val.

(* ------------------------------------------------------------------ *)
(* what the parser builds under STRICT (partial correctness, any leaf)   *)

Hypothesis Hst : base (Some (unbs "ST")) = true.
Hypothesis Hvar : base (Some (unbs "varies")) = false.
Hypothesis Hgf : forall n r, slookup n (t_fields t) = Some r -> gref t r.
Hypothesis Hgs : forall n r, length n <= 3 -> slookup n (t_segments t) = Some r -> gseg t n r.
(* no datatype struct is called VARIES... *)
Hypothesis Hnv : forall d rows, slookup d (t_structs t) = Some rows -> bstarts (unbs "VARIES") d = false.
(* no component of the table is called D_j beyond the components the struct D defines, for the
   datatypes D of field references (v2.3 has CM_CP_3 beyond the two components of the struct CM_CP,
   which only occurs below a component) *)
Definition nx_ref (r : sref) : Prop :=
  forall i d rows, r = SSeqDt i -> i_dt i = Some d -> slookup d (t_structs t) = Some rows ->
  forall j, length rows < j -> slookup (name_idx d j) (t_components t) = None.
Hypothesis HnxF : forall n r, slookup n (t_fields t) = Some r -> nx_ref r.
Hypothesis HnxI : forall n rows, slookup n (t_segments t) = Some (SSeqIn false rows None) ->
  forall row k m r mn mx, In row rows -> row = SIn k m r mn mx -> nx_ref r.

Definition cplx (dt : option str) : Prop := exists d, dt = Some d /\ base dt = false /\ is_varies dt = false.

Lemma gref_cplx i : gref t (SSeqDt i) -> cplx (i_dt i) /\
  exists d, i_dt i = Some d /\ d <> [] /\ upper d = d /\ bstarts (unbs "VARIES") d = false.
Proof.
  cbn [gref]. intros [d [rows [Hd [Hne [Hu [Hb [Hl _]]]]]]]. split.
  - exists d. split; [exact Hd|]. rewrite Hd. split; [exact Hb|]. now apply upper_not_lower_varies.
  - exists d. repeat (split; [assumption|]). exact (Hnv _ _ Hl).
Qed.

Lemma ref_dt_parse r st : parse_structure t r = Ok st -> st_dt (Some st) = ref_dt r.
Proof. intros H. unfold st_dt, ref_dt. now rewrite (proj1 (parse_structure_info t r st H)). Qed.

(* CanBeVaries.__init__(name, datatype=None, reference) for a name that is not VARIES_i: the element is
   built on the component table's entry of its name *)
Lemma canbevaries_named lvl is_sub n0 reference : n0 <> [] -> ogref t reference ->
  can_ref (t_components t) (Some n0) reference ->
  valid_child_name (Some n0) (Some (unbs "VARIES")) = false ->
  pc (fun p => fst (fst p) = Some (upper n0) /\
               exists r s, slookup (upper n0) (t_components t) = Some r /\ gref t r /\ parse_structure t r = Ok s /\
                           snd p = Some s /\ snd (fst p) = ref_dt r)
     (canbevaries t lvl is_sub (Some n0) None reference).
Proof.
  intros Hne Hr Hcan Hv. unfold canbevaries. change (is_varies None) with false. cbn [andb].
  rewrite !andb_false_r. cbn [andb bind]. rewrite Hv.
  assert (S : exists r, slookup (upper n0) (t_components t) = Some r /\ gref t r /\
                        structure_for t CMP (upper n0) reference = parse_structure t r \/
              structure_for t CMP (upper n0) reference = Err (HL7 EInvalidName)).
  { unfold structure_for. destruct reference as [r|].
    - exists r. left. split; [now apply Hcan|]. split; [exact Hr|reflexivity].
    - unfold load_reference. cbn [table_of]. destruct (slookup (upper n0) (t_components t)) as [r|] eqn:E.
      + exists r. left. split; [reflexivity|]. split; [exact (Hgc _ _ E)|reflexivity].
      + exists SBad. now right. }
  destruct S as [r [[E [G S]]|S]]; rewrite S; [|exact I].
  destruct (gref_parse t r G) as [s [Hp _]]. rewrite Hp. cbn [bind].
  destruct (is_sub && _); [exact I|].
  match goal with |- sp _ _ (if ?b then _ else _) => destruct b; [exact I|] end.
  destruct (upper n0) as [|c n'] eqn:U.
  { exfalso. apply Hne. destruct n0; [reflexivity|discriminate]. }
  cbn.
  split; [reflexivity|]. exists r, s. repeat (split; [reflexivity || assumption|]). exact (ref_dt_parse r s Hp).
Qed.

(* an unnamed element gets its datatype as name *)
Lemma canbevaries_unnamed lvl is_sub d reference : dt_simple t (Some d) ->
  pc (fun p => fst (fst p) = snd (fst p)) (canbevaries t lvl is_sub None (Some d) reference).
Proof.
  intros Hd. unfold canbevaries.
  match goal with |- sp _ _ (bind ?X _) => destruct X as [r0|x] end; cbn [bind]; [|exact I].
  change (valid_child_name None (Some (unbs "VARIES"))) with false. cbn beta iota.
  match goal with |- sp _ _ (bind ?X _) => destruct X as [[nm st]|x] eqn:E end; cbn [bind]; [|exact I].
  assert (nm = None).
  { destruct r0 as [r|]; [|now injection E as <- _].
    destruct (parse_structure t r); cbn [bind] in E; [|discriminate]. now injection E as <- _. }
  subst nm. destruct (is_sub && _); [exact I|]. cbn beta iota.
  apply (sp_bind anyx (fun p => p = (Some d, st))); [now apply (set_datatype_ctor_simple t)|].
  intros [dt st'] E'. injection E' as -> ->. reflexivity.
Qed.

Section ParseS.
Variable e : ec.
Variable leaf : option str -> str -> result str.
Notation lvl := STRICT.

Definition psub (st : option structure) (x : sub) : Prop :=
  sub_unknown x = true \/
  exists n, sc_name x = Some n /\ (forall r, slookup n (t_components t) = Some r -> sc_dt x = ref_dt r) /\
            (has_map st = true -> ref_in st n <> None).

Lemma mk_subcomponent_unnamed d value reference : dt_simple t (Some d) ->
  pc (fun x => sub_unknown x = true) (mk_subcomponent t lvl leaf None (Some d) value reference).
Proof.
  intros Hd. unfold mk_subcomponent. cbn [andb].
  apply (sp_bind anyx (fun p : option str * option str * option structure => fst (fst p) = snd (fst p)));
    [now apply canbevaries_unnamed|].
  intros [[nm dt] st] E. cbn [fst snd] in E. subst nm.
  change (valid_child_name None (Some (unbs "VARIES"))) with false. cbn [andb].
  assert (U : forall v en, sub_unknown (mk_sub dt dt v en) = true).
  { intros v en. unfold sub_unknown. cbn. apply ValidateFacts.opt_eqb_refl. }
  destruct value; [apply U|]. apply (sp_bind anyx TT); [destruct (leaf _ _); exact I|]. intros x _. apply U.
Qed.

Lemma mk_subcomponent_named n0 value reference : n0 <> [] -> ogref t reference ->
  can_ref (t_components t) (Some n0) reference ->
  valid_child_name (Some n0) (Some (unbs "VARIES")) = false ->
  pc (fun x => sc_name x = Some (upper n0) /\ forall r, slookup (upper n0) (t_components t) = Some r -> sc_dt x = ref_dt r)
     (mk_subcomponent t lvl leaf (Some n0) None value reference).
Proof.
  intros Hne Hr Hcan Hv. unfold mk_subcomponent.
  assert (N : (match Some n0 with Some (_ :: _) => false | _ => true end) = false) by (destruct n0; [congruence|reflexivity]).
  rewrite N. cbn [andb].
  eapply (sp_bind anyx); [now apply (canbevaries_named lvl true n0 reference)|].
  intros [[nm dt] st] [Hnm [r [s [E [G [Hp [Hs Hd]]]]]]]. cbn [fst snd] in Hnm, Hs, Hd. subst nm.
  rewrite Hv. cbn [andb].
  assert (Q : forall v en, sc_name (mk_sub (Some (upper n0)) dt v en) = Some (upper n0) /\
                           forall r0, slookup (upper n0) (t_components t) = Some r0 -> sc_dt (mk_sub (Some (upper n0)) dt v en) = ref_dt r0).
  { intros v en. split; [reflexivity|]. intros r0 E0. cbn. rewrite E in E0. injection E0 as <-. exact Hd. }
  destruct value; [apply Q|]. apply (sp_bind anyx TT); [destruct (leaf _ _); exact I|]. intros x _. apply Q.
Qed.

Lemma name_idx_ne p i : name_idx p i <> [].
Proof. destruct (name_idx_cons p i) as [c [r ->]]. discriminate. Qed.

Lemma not_varies_child d i : bstarts (unbs "VARIES") d = false -> upper d = d ->
  valid_child_name (Some (name_idx d i)) (Some (unbs "VARIES")) = false.
Proof.
  intros H Hu. destruct (Nat.eq_dec i 0) as [->|Hi]; [apply valid_child_name_idx_0|].
  rewrite valid_child_name_idx, Hu by exact Hi. change (upper (unbs "VARIES")) with (unbs "VARIES"). now apply not_varies_name.
Qed.

(* parse_subcomponents below a component of the complex datatype d *)
Lemma parse_subcomponents_aux_S d st l : ost_canC t st -> base (Some d) = false ->
  bstarts (unbs "VARIES") d = false -> upper d = d ->
  pc (Forall (psub st)) (parse_subcomponents_aux t lvl leaf (Some d) st l).
Proof.
  intros Hs Hb Hnvd Hu. induction l as [|[i s] rest IH]; [constructor|]. cbn [parse_subcomponents_aux].
  rewrite Hb. cbn [opt_is_none orb str_of_opt]. cbn beta iota.
  assert (K : forall nm dt ref, pc (psub st) (mk_subcomponent t lvl leaf nm dt s ref) ->
    pc (Forall (psub st))
       (if materialise s nm
        then do x <- mk_subcomponent t lvl leaf nm dt s ref;
             do xs <- parse_subcomponents_aux t lvl leaf (Some d) st rest; Ok (x :: xs)
        else parse_subcomponents_aux t lvl leaf (Some d) st rest)).
  { intros nm dt ref H. destruct (materialise s nm); [|exact IH].
    apply (sp_bind anyx (psub st)); [exact H|]. intros x Hx.
    apply (sp_bind anyx (Forall (psub st))); [exact IH|]. intros xs Hxs. now constructor. }
  destruct (has_map st) eqn:M; cbn beta iota.
  - destruct (ref_in st (name_idx d i)) as [r|] eqn:R; cbn beta iota.
    + destruct (ref_in_canC t st _ r Hs R) as [E U]. apply K.
      eapply sp_weaken; [|apply (mk_subcomponent_named (name_idx d i) s (Some r) (name_idx_ne d i) (Hgc _ _ E))].
      * intros x [Hn Hd]. right. exists (name_idx d i). rewrite U in Hn, Hd. split; [exact Hn|]. split; [exact Hd|].
        intros _. congruence.
      * intros r' n H1 H2. injection H1 as <-. injection H2 as <-. now rewrite U.
      * now apply not_varies_child.
    + apply K. eapply sp_weaken; [|apply mk_subcomponent_unnamed; apply dt_simple_ST; exact Hst]. intros x Hx. now left.
  - apply K.
    eapply sp_weaken; [|apply (mk_subcomponent_named (name_idx d i) s None (name_idx_ne d i) I)].
    + intros x [Hn Hd]. right. exists (upper (name_idx d i)). split; [exact Hn|]. split; [exact Hd|congruence].
    + intros r' n H1. discriminate.
    + now apply not_varies_child.
Qed.

(* STRICT acceptance below a complex parent: nothing unknown, nothing above its maximum *)
Definition card_inv {A} (nm : A -> option str) (st : option structure) (l : list A) : Prop :=
  forall s n mn mx, st = Some s -> repetitions_of s n = Some (mn, mx) -> (mx > -1)%Z ->
                    (Z.of_nat (count_named nm (Some n) l) <= mx)%Z.

Lemma count_named_snoc {A} (nm : A -> option str) n l k :
  count_named nm n (l ++ [k]) = count_named nm n l + (if opt_eqb (nm k) n then 1 else 0).
Proof. unfold count_named. rewrite filter_app, app_length. cbn [filter]. destruct (opt_eqb (nm k) n); reflexivity. Qed.

Lemma card_step {A} (nm : A -> option str) st l k :
  card_ok STRICT nm st (nm k) l = true -> card_inv nm st l -> card_inv nm st (l ++ [k]).
Proof.
  intros Hc Hi s n mn mx Hs Hr Hm. rewrite count_named_snoc.
  destruct (opt_eqb (nm k) (Some n)) eqn:E; [|rewrite Nat.add_0_r; exact (Hi s n mn mx Hs Hr Hm)].
  apply ValidateFacts.opt_eqb_true in E. unfold card_ok in Hc. cbn [is_strict negb] in Hc.
  rewrite E, Hs, Hr in Hc. apply negb_true_iff in Hc. apply andb_false_iff in Hc. destruct Hc as [Hc|Hc].
  - rewrite Z.gtb_ltb in Hc. apply Z.ltb_ge in Hc. lia.
  - rewrite Z.gtb_ltb in Hc. apply Z.ltb_ge in Hc. lia.
Qed.

Lemma vcc_strict_known pn pdt pst kn kdt : cplx pdt ->
  valid_child_complex t STRICT pn pdt pst kn kdt = Ok true -> opt_eqb kn kdt = false.
Proof.
  intros [d [-> [Hb Hv]]]. unfold valid_child_complex. rewrite Hb, Hv. cbn [negb andb orb opt_is_none is_strict].
  destruct (opt_eqb kn kdt); [|reflexivity]. cbn [andb]. discriminate.
Qed.

Lemma add_subs_S kids : forall c c', add_subs t lvl c kids = Ok c' ->
  card_inv sc_name (c_st c) (c_children c) ->
  c' = mk_comp (c_name c) (c_dt c) (c_st c) (c_children c ++ kids) /\
  card_inv sc_name (c_st c) (c_children c') /\
  (cplx (c_dt c) -> Forall (fun k => sub_unknown k = false) kids).
Proof.
  induction kids as [|k rest IH]; intros c c' H Hi; cbn [add_subs] in H.
  - injection H as <-. rewrite app_nil_r. split; [now destruct c|]. split; [exact Hi|constructor].
  - destruct (_ && _ && _); [discriminate|]. destruct (_ && _ && _); [discriminate|].
    destruct (valid_child_complex t lvl (c_name c) (c_dt c) (c_st c) (sc_name k) (sc_dt k)) as [[|]|] eqn:V;
      cbn [bind negb] in H; try discriminate.
    destruct (card_ok lvl sc_name (c_st c) (sc_name k) (c_children c)) eqn:C; cbn [negb] in H; [|discriminate].
    apply IH in H; [|cbn; now apply card_step]. cbn [c_name c_dt c_st c_children] in H.
    destruct H as [-> [H2 H3]]. rewrite <- app_assoc in H2 |- *. split; [reflexivity|]. split; [exact H2|].
    intros Hx. constructor; [|now apply H3]. exact (vcc_strict_known _ _ _ _ _ Hx V).
Qed.



(* a component built under its table entry, with STRICT-accepted subcomponents *)
Definition cbuilt (c : comp) : Prop :=
  exists n, c_name c = Some n /\
    forall r, slookup n (t_components t) = Some r ->
      c_dt c = ref_dt r /\
      forall i, r = SSeqDt i -> exists st, c_st c = Some st /\ parse_structure t r = Ok st /\
                                kids_ok sc_name st (c_children c) /\ Forall csub (c_children c).

Lemma ccomp_of c : comp_unknown c = false -> cbuilt c -> ccomp c.
Proof. intros H1 H2. split; assumption. Qed.

Lemma parse_component_S text n0 reference : n0 <> [] -> ogref t reference ->
  can_ref (t_components t) (Some n0) reference ->
  valid_child_name (Some n0) (Some (unbs "VARIES")) = false ->
  pc (fun c => c_name c = Some (upper n0) /\ slookup (upper n0) (t_components t) <> None /\ cbuilt c)
     (parse_component t lvl e leaf text (Some n0) None reference).
Proof.
  intros Hne Hr Hcan Hv. unfold parse_component.
  apply (sp_bind anyx (fun c => c_children c = [] /\ c_name c = Some (upper n0) /\
           exists r s, slookup (upper n0) (t_components t) = Some r /\ gref t r /\ parse_structure t r = Ok s /\
                       c_st c = Some s /\ c_dt c = ref_dt r)).
  - apply (pc_fallback _ (fun _ => mk_component t lvl (Some n0) None reference)); [|intros _; exact I].
    unfold mk_component. eapply (sp_bind anyx); [now apply (canbevaries_named lvl false n0 reference)|].
    intros [[nm dt] st] [Hnm [r [s [E [G [Hp [Hs Hd]]]]]]]. cbn [fst snd] in Hnm, Hs, Hd.
    destruct (_ && _ && _ && _); [exact I|]. cbn. split; [reflexivity|]. split; [exact Hnm|]. exists r, s. auto.
  - intros c [Hk [Hn [r [s [E [G [Hp [Hs Hd]]]]]]]]. unfold parse_subcomponents. cbn [is_strict negb andb].
    assert (Fin : forall kids c', add_subs t lvl c kids = Ok c' ->
              (forall i, r = SSeqDt i -> Forall (psub (Some s)) kids) ->
              c_name c' = Some (upper n0) /\ slookup (upper n0) (t_components t) <> None /\ cbuilt c').
    { intros kids c' Ha Hps.
      assert (Hi0 : card_inv sc_name (c_st c) (c_children c)) by (rewrite Hk; intros s0 n mn mx _ _ Hm; cbn; lia).
      destruct (add_subs_S kids c c' Ha Hi0) as [-> [Hci Hun]]. cbn [c_name c_children c_st c_dt] in *.
      split; [exact Hn|]. split; [congruence|]. exists (upper n0). split; [exact Hn|].
      intros r' E'. rewrite E in E'. injection E' as <-. split; [exact Hd|].
      intros i ->. exists s. split; [exact Hs|]. split; [exact Hp|]. rewrite Hk in *. cbn [app] in *.
      destruct (gref_cplx i G) as [Hx _]. rewrite Hd in Hun. specialize (Hun Hx). specialize (Hps i eq_refl).
      assert (Hm : has_map (Some s) = true).
      { destruct (struct_facts i G s Hp) as [d [rows [_ [_ [_ [_ [_ [_ [[Ho _ _] _]]]]]]]]]. unfold has_map. now rewrite Ho. }
      assert (Each : forall k, In k kids -> sub_unknown k = false /\
                exists n, sc_name k = Some n /\ (forall r0, slookup n (t_components t) = Some r0 -> sc_dt k = ref_dt r0) /\
                          by_name s n <> None).
      { intros k Hin. rewrite Forall_forall in Hun, Hps. pose proof (Hun k Hin) as U. split; [exact U|].
        destruct (Hps k Hin) as [U'|[n [N1 [N2 N3]]]]; [congruence|]. exists n. split; [exact N1|]. split; [exact N2|].
        specialize (N3 Hm). unfold ref_in in N3. destruct (st_ordered s); [|congruence].
        destruct (by_name s n); [discriminate|]. cbn in N3. congruence. }
      split; [split|].
      - intros k Hin. destruct (Each k Hin) as [_ [n [N1 [_ N3]]]]. eauto.
      - intros n mn mx Hrp Hmx. rewrite Hs in Hci. exact (Hci s n mn mx eq_refl Hrp Hmx).
      - apply Forall_forall. intros k Hin. destruct (Each k Hin) as [U [n [N1 [N2 _]]]]. split; [exact U|]. eauto. }
    destruct r as [i|i|c0 cs oi|]; cbn [gref] in G; try tauto.
    + apply (sp_bind anyx TT); [destruct (parse_subcomponents_aux _ _ _ _ _ _); exact I|]. intros kids _.
      eapply sp_post; [apply pc_eq|]. intros c' Ha _. apply (Fin kids c' Ha). intros i0 E0. discriminate.
    + destruct (gref_cplx i G) as [[d [Hd' [Hb _]]] [d' [Hd'' [_ [Hu Hnvd]]]]].
      rewrite Hd' in Hd''. injection Hd'' as <-.
      assert (Ec : c_dt c = Some d) by (rewrite Hd; exact Hd').
      assert (Hcan' : ost_canC t (c_st c)).
      { rewrite Hs. destruct (gref_parse t (SSeqDt i) G) as [s' [Hp' [_ [_ [Hc' _]]]]]. rewrite Hp in Hp'. injection Hp' as <-. exact Hc'. }
      rewrite Ec. rewrite Hd' in Hb.
      apply (sp_bind anyx (Forall (psub (c_st c)))); [now apply parse_subcomponents_aux_S|]. intros kids Hkids.
      eapply sp_post; [apply pc_eq|]. intros c' Ha _. apply (Fin kids c' Ha). intros i0 _. now rewrite <- Hs.
Qed.

Lemma add_comps_S kids : forall f f', add_comps t lvl f kids = Ok f' ->
  card_inv c_name (f_st f) (f_children f) ->
  f' = mk_field_rec (f_name f) (f_dt f) (f_st f) (f_children f ++ kids) /\
  card_inv c_name (f_st f) (f_children f') /\
  (cplx (f_dt f) -> Forall (fun k => comp_unknown k = false) kids).
Proof.
  induction kids as [|k rest IH]; intros f f' H Hi; cbn [add_comps] in H.
  - injection H as <-. rewrite app_nil_r. split; [now destruct f|]. split; [exact Hi|constructor].
  - destruct (_ && _ && _); [discriminate|].
    destruct (valid_child_complex t lvl (f_name f) (f_dt f) (f_st f) (c_name k) (c_dt k)) as [[|]|] eqn:V;
      cbn [bind negb] in H; try discriminate.
    destruct (card_ok lvl c_name (f_st f) (c_name k) (f_children f)) eqn:C; cbn [negb] in H; [|discriminate].
    apply IH in H; [|cbn; now apply card_step]. cbn [f_name f_dt f_st f_children] in H.
    destruct H as [-> [H2 H3]]. rewrite <- app_assoc in H2 |- *. split; [reflexivity|]. split; [exact H2|].
    intros Hx. constructor; [|now apply H3]. exact (vcc_strict_known _ _ _ _ _ Hx V).
Qed.

(* parse_components below a field of the complex datatype d whose structure is st *)
Lemma parse_components_aux_S d rows st l : st_canC t st -> rows_structure t d CMP rows st -> rows_resolved t rows ->
  (forall j, length rows < j -> slookup (name_idx d j) (t_components t) = None) -> base (Some d) = false -> bstarts (unbs "VARIES") d = false -> upper d = d ->
  Forall (fun p : nat * str => 1 <= fst p) l ->
  pc (Forall (fun c => cbuilt c /\ exists n, c_name c = Some n /\ by_name st n <> None))
     (parse_components_aux t lvl e leaf (Some d) (Some st) l).
Proof.
  intros Hs Hrs Hres Hl Hb Hnvd Hu Hl1. induction l as [|[i s] rest IH]; [constructor|]. cbn [parse_components_aux].
  inversion Hl1 as [|? ? Hi Hrest]; subst. cbn [fst] in Hi. specialize (IH Hrest).
  rewrite Hb. rewrite (upper_not_lower_varies d Hu). cbn [opt_is_none orb str_of_opt]. cbn beta iota.
  assert (Hm : has_map (Some st) = true) by (destruct Hrs as [Ho _ _]; unfold has_map; now rewrite Ho).
  rewrite Hm.
  match goal with |- sp _ _ (if ?b then _ else _) => destruct b; [|exact IH] end.
  apply (sp_bind anyx (fun c => cbuilt c /\ exists n, c_name c = Some n /\ by_name st n <> None)).
  - destruct (ref_in (Some st) (name_idx d i)) as [r|] eqn:R.
    + destruct (ref_in_canC t (Some st) _ r Hs R) as [E U].
      eapply sp_weaken; [|apply (parse_component_S s (name_idx d i) (Some r) (name_idx_ne d i) (Hgc _ _ E))].
      * intros c [Hn [_ Hc]]. split; [exact Hc|]. exists (name_idx d i). rewrite U in Hn. split; [exact Hn|].
        unfold ref_in in R. destruct (st_ordered st); [|discriminate]. destruct (by_name st (name_idx d i)); [discriminate|discriminate].
      * intros r' n H1 H2. injection H1 as <-. injection H2 as <-. now rewrite U.
      * now apply not_varies_child.
    + assert (Hlen : length rows < i).
      { destruct (Nat.lt_ge_cases (length rows) i) as [L|L]; [exact L|exfalso].
        destruct i as [|j]; [lia|]. destruct (nth_error rows j) as [row|] eqn:Ej; [|apply nth_error_None in Ej; lia].
        destruct Hrs as [Ho Hbn _]. unfold ref_in in R. rewrite Ho in R.
        destruct (row_ref t row) as [r|] eqn:Er; [|exact (Hres row (nth_error_In _ _ Ej) Er)].
        rewrite (Hbn j row r Ej Er) in R. discriminate R. }
      eapply sp_weaken; [|apply (parse_component_S s (name_idx d i) None (name_idx_ne d i) I)].
      * intros c [_ [Hne _]]. exfalso. apply Hne. rewrite name_idx_upper, Hu. exact (Hl i Hlen).
      * intros r' n H1. discriminate.
      * now apply not_varies_child.
  - intros x Hx. apply (sp_bind anyx (Forall (fun c => cbuilt c /\ exists n, c_name c = Some n /\ by_name st n <> None))); [exact IH|].
    intros xs Hxs. now constructor.
Qed.


(* ---------- fields ---------- *)
Lemma mk_field_invalid_S n0 reference :
  mk_field t lvl (Some n0) None reference = Err (HL7 EInvalidName) ->
  structure_for t FIE (upper n0) reference = Err (HL7 EInvalidName).
Proof.
  unfold mk_field. cbn [is_strict andb]. change (is_varies None) with false. cbn [negb andb].
  destruct (structure_for t FIE (upper n0) reference) as [st|[c| |k|]] eqn:S; cbn [bind]; try discriminate.
  destruct c; cbn [bind]; try discriminate. intros _. reflexivity.
Qed.

Definition leaf_ST : sref := SLeaf (mk_info (Some (unbs "ST")) None None (-1)).

Definition mfS (n0 : str) (reference : option sref) (f : field) : Prop :=
  f_children f = [] /\ f_name f = Some (upper n0) /\
  ((exists st, structure_for t FIE (upper n0) reference = Ok st /\ f_st f = Some st /\ f_dt f = ref_dt (st_reference st)) \/
   (structure_for t FIE (upper n0) reference = Err (HL7 EInvalidName) /\ valid_z_field_name n0 = true /\
    f_dt f = Some (unbs "ST") /\ has_map (f_st f) = false)).

Lemma mk_field_S n0 reference : pc (mfS n0 reference) (mk_field t lvl (Some n0) None reference).
Proof.
  unfold mk_field. cbn [is_strict andb]. change (is_varies None) with false. cbn [negb andb].
  destruct (structure_for t FIE (upper n0) reference) as [st|[c| |k|]] eqn:S; cbn [bind]; try exact I.
  - cbn. split; [reflexivity|]. split; [reflexivity|]. left. exists st. split; [exact S|]. split; [reflexivity|].
    apply ref_dt_parse. exact (structure_for_parsed t _ _ _ _ S).
  - destruct c; cbn [bind]; try exact I. destruct (valid_z_field_name n0) eqn:Z; [|exact I].
    rewrite Hst. change (parse_structure t (SLeaf (mk_info (Some (unbs "ST")) None None (-1))))
      with (Ok (mk_structure leaf_ST None [] [] [] (Some (mk_info (Some (unbs "ST")) None None (-1))))).
    cbn [bind]. cbn [st_dt st_info i_dt]. rewrite ValidateFacts.opt_eqb_refl. cbn [negb andb].
    apply (sp_bind anyx (fun p => p = (Some (unbs "ST"), Some (mk_structure leaf_ST None [] [] [] (Some (mk_info (Some (unbs "ST")) None None (-1)))))));
      [apply (set_datatype_ctor_simple t); apply dt_simple_ST; exact Hst|].
    intros [dt st'] E. injection E as -> ->. cbn. split; [reflexivity|]. split; [reflexivity|]. right.
    split; [exact S|]. auto.
Qed.

(* a field built on the reference r *)
Definition fbuilt (r : sref) (f : field) : Prop :=
  f_dt f = ref_dt r /\
  forall i, r = SSeqDt i -> exists st, f_st f = Some st /\ parse_structure t r = Ok st /\
                            kids_ok c_name st (f_children f) /\ Forall ccomp (f_children f).

Definition sfp (n0 : str) (reference : option sref) (fv : bool) (f : field) : Prop :=
  f_name f = Some (upper n0) /\ enc_ok t f /\
  ((exists st, structure_for t FIE (upper n0) reference = Ok st /\ fbuilt (st_reference st) f) \/
   (structure_for t FIE (upper n0) reference = Err (HL7 EInvalidName) /\
    ((valid_z_field_name n0 = true /\ f_dt f = Some (unbs "ST")) \/ (fv = true /\ f_dt f = Some (unbs "varies"))))).

Lemma indexed_ge1 (l : list str) : Forall (fun p : nat * str => 1 <= fst p) (indexed l).
Proof.
  apply Forall_forall. intros [k p] H. unfold indexed in H. apply in_combine_seq in H. cbn. lia.
Qed.

Lemma structure_for_gref k n reference st : (k = FIE \/ k = CMP) -> ogref t reference ->
  structure_for t k n reference = Ok st -> gref t (st_reference st).
Proof.
  intros Hk Hr S. unfold structure_for in S. destruct reference as [r|].
  - destruct (parse_structure_info t r st S) as [_ ->]. exact Hr.
  - unfold load_reference in S. destruct (slookup n (table_of t k)) as [r|] eqn:E; [|discriminate].
    destruct (parse_structure_info t r st S) as [_ ->]. destruct Hk as [-> | ->]; [exact (Hgf _ _ E)|exact (Hgc _ _ E)].
Qed.

Lemma parse_field_S text n0 reference fv : ogref t reference ->
  (forall st, structure_for t FIE (upper n0) reference = Ok st -> nx_ref (st_reference st)) ->
  pc (sfp n0 reference fv) (parse_field t lvl e leaf text (Some n0) reference fv).
Proof.
  intros Hr Hnr. unfold parse_field.
  apply (sp_bind anyx (fun f => f_children f = [] /\ f_name f = Some (upper n0) /\
     ((exists st, structure_for t FIE (upper n0) reference = Ok st /\ f_st f = Some st /\ f_dt f = ref_dt (st_reference st)) \/
      (structure_for t FIE (upper n0) reference = Err (HL7 EInvalidName) /\ has_map (f_st f) = false /\
       ((valid_z_field_name n0 = true /\ f_dt f = Some (unbs "ST")) \/ (fv = true /\ f_dt f = Some (unbs "varies"))))))).
  - apply (pc_fallback _ (fun _ => mk_field t lvl (Some n0) None reference)).
    + eapply sp_weaken; [|apply mk_field_S]. intros f [H1 [H2 [H3|[H3 [H4 [H5 H6]]]]]]; repeat (split; [assumption|]); [now left|].
      right. auto.
    + intros Hinv. apply mk_field_invalid_S in Hinv. destruct fv; [|exact I].
      eapply sp_weaken; [|apply mk_field_S]. intros f [H1 [H2 [[st [S [Hs Hd]]]|[S _]]]]; [|discriminate S].
      split; [exact H1|]. split; [exact H2|]. right. split; [exact Hinv|].
      cbn [structure_for] in S. injection S as <-. split; [now rewrite Hs|]. right. split; [reflexivity|exact Hd].
  - intros f [Hk [Hn Hx]].
    assert (Hi0 : card_inv c_name (f_st f) (f_children f)) by (rewrite Hk; intros s0 n mn mx _ _ Hm; cbn; lia).
    (* what acceptance gives, whatever the children were *)
    assert (Fin : forall kids f', add_comps t lvl f kids = Ok f' ->
              (forall st i, structure_for t FIE (upper n0) reference = Ok st -> st_reference st = SSeqDt i ->
                 f_st f = Some st ->
                 Forall (fun c => cbuilt c /\ exists n, c_name c = Some n /\ by_name st n <> None) kids) ->
              enc_ok t f' -> sfp n0 reference fv f').
    { intros kids f' Ha Hkids He. destruct (add_comps_S kids f f' Ha Hi0) as [-> [Hci Hun]].
      cbn [f_name f_children f_st f_dt] in *. split; [exact Hn|]. split; [exact He|].
      destruct Hx as [[st [S [Hs Hd]]]|[S [_ Hx]]]; [left|right; cbn [f_dt]; auto].
      exists st. split; [exact S|]. split; [exact Hd|]. cbn [f_st f_children]. intros i Ei.
      pose proof (structure_for_gref FIE _ _ _ (or_introl eq_refl) Hr S) as G. rewrite Ei in G.
      exists st. split; [exact Hs|]. split; [exact (structure_for_parsed t _ _ _ _ S)|].
      rewrite Hk in *. cbn [app] in *.
      destruct (gref_cplx i G) as [Hcx _]. rewrite Hd, Ei in Hun. cbn [ref_dt ref_info] in Hun. specialize (Hun Hcx).
      specialize (Hkids st i S Ei Hs). rewrite Forall_forall in Hun, Hkids. split; [split|].
      - intros k Hin. destruct (Hkids k Hin) as [_ Hd']. exact Hd'.
      - intros n mn mx Hrp Hm. rewrite Hs in Hci. exact (Hci st n mn mx eq_refl Hrp Hm).
      - apply Forall_forall. intros k Hin. apply ccomp_of; [exact (Hun k Hin)|exact (proj1 (Hkids k Hin))]. }
    destruct (is_msh12 (Some n0)) eqn:M.
    + apply (sp_bind anyx (fun x => sub_unknown x = true));
        [apply mk_subcomponent_unnamed; apply dt_simple_ST; exact Hst|]. intros s Hsub.
      apply (sp_bind anyx (fun c => c_name c = c_dt c /\ c_children c = [])).
      { unfold mk_component. eapply (sp_bind anyx); [apply (canbevaries_unnamed lvl false (unbs "ST") None); apply dt_simple_ST; exact Hst|].
        intros [[nm dt] st] E. cbn [fst snd] in E. destruct (_ && _ && _ && _); [exact I|]. cbn. auto. }
      intros c0 [Hc0 Hk0].
      apply (sp_bind_eq anyx TT); [destruct (add_subs _ _ _ _); exact I|]. intros c Ec _.
      eapply sp_post; [apply pc_eq|]. intros f' Ef _.
      assert (Hi1 : card_inv sc_name (c_st c0) (c_children c0)) by (rewrite Hk0; intros s0 n mn mx _ _ Hm; cbn; lia).
      destruct (add_subs_S [s] c0 c Ec Hi1) as [Ec' _].
      apply (Fin [c] f' Ef).
      * intros st i S Ei Hs. exfalso.
        destruct (add_comps_S [c] f f' Ef Hi0) as [_ [_ Hun]].
        pose proof (structure_for_gref FIE _ _ _ (or_introl eq_refl) Hr S) as G. rewrite Ei in G.
        destruct (gref_cplx i G) as [Hcx _].
        destruct Hx as [[st' [S' [Hs' Hd]]]|[S' _]]; [|rewrite S in S'; discriminate].
        rewrite S in S'. injection S' as <-. rewrite Hd, Ei in Hun. cbn [ref_dt ref_info] in Hun.
        specialize (Hun Hcx). inversion Hun as [|? ? U _]; subst. unfold comp_unknown in U. cbn in U.
        rewrite Hc0, ValidateFacts.opt_eqb_refl in U. discriminate.
      * destruct (add_comps_S [c] f f' Ef Hi0) as [-> _]. intros e'. unfold enc_field. cbn [f_name f_children f_dt].
        rewrite Hk. cbn [app]. rewrite Ec', Hk0. cbn [c_children app].
        destruct (opt_eqb _ _ || _); [eauto|]. destruct (is_varies (f_dt f)); [eauto|].
        destruct (base (f_dt f) || opt_is_none (f_dt f)); eauto.
    + cbn [is_strict negb andb].
      assert (He : forall kids f', add_comps t lvl f kids = Ok f' -> enc_ok t f').
      { intros kids f' Ha. apply enc_ok_not_msh. apply add_comps_appends in Ha. destruct Ha as [_ [E2 _]].
        rewrite E2, Hn. exact M. }
      destruct Hx as [[st [S [Hs Hd]]]|Hx'].
      * pose proof (structure_for_gref FIE _ _ _ (or_introl eq_refl) Hr S) as G.
        pose proof (structure_for_parsed t _ _ _ _ S) as P.
        destruct (st_reference st) as [i|i|c0 cs oi|] eqn:Er; cbn [gref] in G; try tauto.
        -- apply (sp_bind anyx TT); [destruct (parse_components _ _ _ _ _ _ _); exact I|]. intros kids _.
           eapply sp_post; [apply pc_eq|]. intros f' Ha _. apply (Fin kids f' Ha); [|exact (He kids f' Ha)].
           intros st' i' S' Ei. rewrite S in S'. injection S' as <-. rewrite Er in Ei. discriminate.
        -- destruct (struct_facts i G st P) as [d [rows [Hdd [Hu [Hl [_ [Hc [Hrows [Hrs _]]]]]]]]].
           destruct (gref_cplx i G) as [[d0 [Hd0 [Hb _]]] [d1 [Hd1 [_ [_ Hnvd]]]]].
           rewrite Hdd in Hd0, Hd1. injection Hd0 as <-. injection Hd1 as <-. rewrite Hdd in Hb.
           assert (Hcan : st_canC t st).
           { destruct (gref_parse t (SSeqDt i) G) as [s' [Hp' [_ [_ [Hc' _]]]]]. rewrite P in Hp'. injection Hp' as <-. exact Hc'. }
           unfold parse_components. rewrite Hd, Hs. cbn [ref_dt ref_info]. rewrite Hdd.
           apply (sp_bind anyx (Forall (fun c => cbuilt c /\ exists n, c_name c = Some n /\ by_name st n <> None))).
           { apply (parse_components_aux_S d rows st _ Hcan Hrs (crows_resolved t rows Hrows)); try assumption; [|apply indexed_ge1].
             exact (Hnr st S i d rows Er Hdd Hl). }
           intros kids Hkids. eapply sp_post; [apply pc_eq|]. intros f' Ha _.
           apply (Fin kids f' Ha); [|exact (He kids f' Ha)].
           intros st' i' S' Ei Hs'. rewrite S in S'. injection S' as <-. exact Hkids.
      * apply (sp_bind anyx TT); [destruct (parse_components _ _ _ _ _ _ _); exact I|]. intros kids _.
        eapply sp_post; [apply pc_eq|]. intros f' Ha _. apply (Fin kids f' Ha); [|exact (He kids f' Ha)].
        intros st i S. destruct Hx' as [S' _]. rewrite S in S'. discriminate.
Qed.


(* ---------- parse_fields / Segment.add ---------- *)
Definition refof (sst : structure) (n0 : str) : option sref :=
  if has_map (Some sst) then ref_in (Some sst) n0 else None.
Definition sfield (sst : structure) (prefix : str) (f : field) : Prop :=
  exists i fv, sfp (name_idx prefix i) (refof sst (name_idx prefix i)) fv f.

Lemma parse_reps_S reps n0 reference fv : ogref t reference ->
  (forall st, structure_for t FIE (upper n0) reference = Ok st -> nx_ref (st_reference st)) ->
  pc (Forall (sfp n0 reference fv)) (parse_reps t lvl e leaf reps (Some n0) reference fv).
Proof.
  intros Hr Hnr. induction reps as [|r rest IH]; [constructor|]. cbn [parse_reps].
  apply (sp_bind anyx (sfp n0 reference fv)); [now apply parse_field_S|]. intros x Hx.
  apply (sp_bind anyx (Forall (sfp n0 reference fv))); [exact IH|]. intros xs Hxs. now constructor.
Qed.

Definition st_nx (sst : structure) : Prop := forall k en, by_name sst k = Some en -> nx_ref (se_ref en).

Lemma parse_fields_aux_S prefix sst fv l : st_canF t sst -> st_nx sst ->
  pc (Forall (sfield sst prefix)) (parse_fields_aux t lvl e leaf prefix (Some sst) fv l).
Proof.
  intros Hs Hnxs. induction l as [|[i f] rest IH]; [constructor|]. cbn [parse_fields_aux].
  fold (refof sst (name_idx prefix i)).
  assert (R : ogref t (refof sst (name_idx prefix i))).
  { unfold refof. destruct (has_map (Some sst)); [|exact I].
    destruct (ref_in (Some sst) (name_idx prefix i)) as [r|] eqn:E; [|exact I].
    destruct (ref_in_by_name _ _ _ E) as [en [B <-]]. exact (proj1 (proj2 (Hs _ _ B))). }
  assert (W : forall reps fv', pc (Forall (sfield sst prefix))
                (parse_reps t lvl e leaf reps (Some (name_idx prefix i)) (refof sst (name_idx prefix i)) fv')).
  assert (N : forall st, structure_for t FIE (upper (name_idx prefix i)) (refof sst (name_idx prefix i)) = Ok st ->
                nx_ref (st_reference st)).
  { intros st S. unfold structure_for in S. destruct (refof sst (name_idx prefix i)) as [r|] eqn:Eref.
    - rewrite (proj2 (parse_structure_info t _ _ S)). unfold refof in Eref. destruct (has_map (Some sst)); [|discriminate].
      destruct (ref_in_by_name _ _ _ Eref) as [en [B <-]]. exact (Hnxs _ _ B).
    - unfold load_reference in S. cbn [table_of] in S. destruct (slookup _ (t_fields t)) as [r|] eqn:E0; [|discriminate].
      rewrite (proj2 (parse_structure_info t _ _ S)). exact (HnxF _ _ E0). }
  { intros reps fv'. eapply sp_weaken; [|apply (parse_reps_S reps _ _ fv' R N)].
    intros fs. apply Forall_impl. intros x Hx. now exists i, fv'. }
  apply (sp_bind anyx (Forall (sfield sst prefix))).
  - destruct (negb (is_blank f)).
    + destruct (streqb _ _); apply W.
    + destruct (streqb _ _); [apply W|constructor].
  - intros here Hh. apply (sp_bind anyx (Forall (sfield sst prefix))); [exact IH|]. intros xs Hxs.
    cbn. apply Forall_app. now split.
Qed.

Lemma add_fields_S kids : forall s s', add_fields t lvl s kids = Ok s' ->
  card_inv f_name (Some (s_st s)) (s_children s) -> card_inv f_name (Some (s_st s)) (s_children s').
Proof.
  induction kids as [|k rest IH]; intros s s' H Hi; cbn [add_fields] in H.
  - now injection H as <-.
  - destruct (f_name k) as [kn|] eqn:N; [|discriminate].
    destruct (_ && _); [destruct (known_field t kn); discriminate|].
    destruct (negb (bstarts _ _)); [discriminate|].
    destruct (card_ok lvl f_name (Some (s_st s)) (Some kn) (s_children s)) eqn:C; cbn [negb] in H; [|discriminate].
    assert (Hi' : card_inv f_name (Some (s_st s)) (s_children s ++ [k])).
    { apply card_step; [now rewrite N|exact Hi]. }
    destruct (s_inf s && _).
    + destruct (py_int_ok _); [|discriminate]. apply IH in H; exact H || exact Hi'.
    + apply IH in H; exact H || exact Hi'.
Qed.

End ParseS.

(* ---------- the theorem ---------- *)
Hypothesis Hnz : forall r, slookup ("Z"%byte :: r) (t_fields t) = None.
Hypothesis Hfu : forall n r, slookup n (t_fields t) = Some r -> ref_dt r <> Some n.
Hypothesis Hsin : forall n rows, slookup n (t_segments t) = Some (SSeqIn false rows None) ->
  forall row k m r mn mx, In row rows -> row = SIn k m r mn mx -> mx = 0%Z.

(* the two side conditions (exact: see the refutations in Properties/C05.v) *)
Definition strict_side (s : seg) : Prop :=
  if seg_is_z s then Forall (fun f => field_is_z f = true) (s_children s)
  else Forall (fun f => exists n, f_name f = Some n /\ by_name (s_st s) n <> None) (s_children s).

Lemma mk_segment_parsed name s0 : mk_segment t name None = Ok s0 ->
  parse_structure t (st_reference (s_st s0)) = Ok (s_st s0).
Proof.
  unfold mk_segment. destruct (valid_z_segment_name name).
  - destruct (parse_structure t empty_seq) as [st|] eqn:E; cbn [bind]; [|discriminate].
    intros H. injection H as <-. cbn [s_st]. now rewrite (proj2 (parse_structure_info t _ _ E)).
  - destruct (structure_for t SEG (upper name) None) as [st|] eqn:E; cbn [bind]; [|discriminate].
    pose proof (structure_for_parsed t _ _ _ _ E) as P. intros H.
    assert (Hst' : s_st s0 = st).
    { repeat match type of H with
             | (if ?b then _ else _) = _ => destruct b
             | match ?x with _ => _ end = _ => destruct x; try discriminate
             end; try discriminate; injection H as <-; reflexivity. }
    now rewrite Hst'.
Qed.

(* decidable form *)
Definition strict_sideb (s : seg) : bool :=
  if seg_is_z s then forallb field_is_z (s_children s)
  else forallb (fun f => match f_name f with Some n => opt_is_some (by_name (s_st s) n) | None => false end) (s_children s).
Lemma strict_sideb_spec s : strict_sideb s = true -> strict_side s.
Proof.
  unfold strict_sideb, strict_side. destruct (seg_is_z s); intros H; apply Forall_forall; intros f Hf;
    pose proof (proj1 (forallb_forall _ _) H f Hf) as K; cbv beta in K; [exact K|].
  destruct (f_name f) as [n|]; [|discriminate]. exists n. split; [reflexivity|]. now destruct (by_name (s_st s) n).
Qed.

Definition sseg_post (s : seg) : Prop :=
  (exists prefix, s_name s = upper prefix /\ Forall (sfield (s_st s) prefix) (s_children s)) /\
  parse_structure t (st_reference (s_st s)) = Ok (s_st s) /\
  card_inv f_name (Some (s_st s)) (s_children s) /\
  st_canF t (s_st s) /\ length (s_name s) = 3 /\ upper (s_name s) = s_name s /\
  ((seg_is_z s = true /\ s_st s = empty_st) \/
   (seg_is_z s = false /\ exists rows,
      slookup (s_name s) (t_segments t) = Some (SSeqIn false rows None) /\
      st_reference (s_st s) = SSeqIn false rows None /\
      rows_structure t (s_name s) FIE rows (s_st s) /\ (forall row, In row rows -> frow t row) /\
      rows_contiguous (s_name s) FIE 1 rows = true)).

Theorem parse_segment_S e leaf text : pc sseg_post (parse_segment t STRICT e leaf text None).
Proof.
  unfold parse_segment.
  apply (sp_bind_eq anyx (seg_pre t (seg_name_of text))).
  - apply (mk_segment_good t Hgf Hgs). unfold seg_name_of, take. apply firstn_le_length.
  - intros s0 Em [Hk [Hn [Hs [H3 Hcase]]]]. unfold parse_segment_in, parse_fields.
    assert (Hnxs : st_nx (s_st s0)).
    { destruct Hcase as [[Z E0]|[Z [rows [Er [Hrs [Hrows Hc]]]]]]; [rewrite E0; intros k en B; discriminate|].
      assert (Hl : slookup (s_name s0) (t_segments t) = Some (SSeqIn false rows None)).
      { destruct (Proofs.RoundTripMsg.mk_segment_st t _ None s0 Em) as [_ [[Z' _]|[_ Hl]]].
        - rewrite Hn, valid_z_upper' in Z'. congruence.
        - now rewrite Er in Hl. }
      pose proof (mk_segment_parsed _ _ Em) as Hp. rewrite Er in Hp.
      destruct (rows_parse' t (SSeqIn false rows None) false rows None (upper (seg_name_of text)) FIE eq_refl Hc
                  (frows_resolved t rows Hrows)) as [st' [Hp' [_ [_ Hkey]]]].
      rewrite Hp in Hp'. injection Hp' as <-.
      intros k en B. destruct (Hkey k en B) as [j [row [Hj [_ Hrr]]]].
      destruct (Hrows row (nth_error_In _ _ Hj)) as [[m [mn [mx [r' [-> E']]]]]|[m [r' [mn [mx [-> _]]]]]];
        cbn [row_ref table_of] in Hrr.
      - exact (HnxF _ _ Hrr).
      - injection Hrr as <-. exact (HnxI _ _ Hl _ _ _ _ _ _ (nth_error_In _ _ Hj) eq_refl). }
    apply (sp_bind anyx (Forall (sfield (s_st s0) (seg_name_of text)))); [exact (parse_fields_aux_S e leaf _ _ _ _ Hs Hnxs)|].
    intros kids Hkids. eapply sp_post; [apply pc_eq|]. intros s Es _.
    pose proof (add_fields_st t _ _ _ _ Es) as Est.
    assert (Hi0 : card_inv f_name (Some (s_st s0)) (s_children s0)) by (rewrite Hk; intros s1 n mn mx _ _ Hm; cbn; lia).
    pose proof (add_fields_S kids s0 s Es Hi0) as Hci.
    apply add_fields_appends in Es. destruct Es as [Ec En].
    unfold sseg_post, seg_is_z. rewrite Est, En, Hn, Ec, Hk. cbn [app].
    split; [exists (seg_name_of text); split; [reflexivity|exact Hkids]|].
    split; [exact (mk_segment_parsed _ _ Em)|]. split; [rewrite Ec, Hk in Hci; exact Hci|].
    split; [exact Hs|]. split; [now rewrite upper_length|]. split; [apply upper_idem|].
    rewrite valid_z_upper'. destruct Hcase as [[Z E0]|[Z [rows [Er [Hrs [Hrows Hc]]]]]]; [left; auto|right].
    split; [exact Z|]. exists rows. split; [|auto].
    destruct (Proofs.RoundTripMsg.mk_segment_st t _ None s0 Em) as [_ [[Z' _]|[_ Hl]]].
    + rewrite Hn, valid_z_upper' in Z'. congruence.
    + rewrite Hn, Er in Hl. exact Hl.
Qed.

Lemma bupper_not_z b : bupper b <> "z"%byte.
Proof. destruct b; vm_compute; discriminate. Qed.

Lemma zfield_upper_Z n0 : valid_z_field_name (upper n0) = true -> exists r, upper n0 = "Z"%byte :: r.
Proof.
  destruct n0 as [|c n0]; [discriminate|]. cbn [upper map]. fold (upper n0).
  unfold valid_z_field_name. destruct (upper n0) as [|a [|b [|u [|d r]]]]; try discriminate.
  intros H. repeat (apply andb_prop in H; destruct H as [H _]). apply orb_prop in H. destruct H as [H|H].
  - destruct (beqb_spec (bupper c) "z"%byte) as [E|]; [|discriminate]. exfalso. exact (bupper_not_z c E).
  - destruct (beqb_spec (bupper c) "Z"%byte) as [E|]; [|discriminate]. rewrite E. eauto.
Qed.

Lemma upper_not_varies n : upper n = n -> n <> unbs "varies".
Proof. intros H ->. discriminate. Qed.

Section Final.
Variable e : ec.

Lemma count_named_in {A} (nm : A -> option str) n kids k : In k kids -> nm k = Some n -> 1 <= count_named nm (Some n) kids.
Proof.
  intros Hin Hn. unfold count_named. induction kids as [|x kids IH]; [destruct Hin|]. cbn [filter].
  destruct Hin as [->|Hin].
  - rewrite Hn, ValidateFacts.opt_eqb_refl. cbn. lia.
  - destruct (opt_eqb (nm x) (Some n)); cbn [length]; [specialize (IH Hin); lia|now apply IH].
Qed.

Theorem v_seg_oklog s l : sseg_post s -> strict_side s ->
  v_seg t e (Some (st_reference (s_st s))) s = Ok l -> oklog l.
Proof.
  intros [[prefix [Hpre Hk]] [Hp [Hci [Hs [H3 [Hu Hcase]]]]]] Hside H. unfold v_seg in H. unfold strict_side in Hside.
  rewrite Forall_forall in Hk.
  destruct Hcase as [[Z Est]|[Z [rows [Hl [Er [Hrs [Hrows Hc]]]]]]]; rewrite Z in H, Hside.
  - (* Z-segment: every field is a Z-field of datatype ST (or a varies field) *)
    apply (seq_res_oklog _ _ H). intros r a Hr Ea. apply in_map_iff in Hr. destruct Hr as [f [<- Hf]].
    rewrite Forall_forall in Hside. pose proof (Hside f Hf) as Zf.
    destruct (Hk f Hf) as [i [fv [Hn [_ Hx]]]].
    unfold field_is_z in Zf. rewrite Hn in Zf. destruct (zfield_upper_Z _ Zf) as [r0 Ur].
    assert (Hdt : f_dt f = Some (unbs "ST") \/ f_dt f = Some (unbs "varies")).
    { destruct Hx as [[st [S _]]|[_ [[_ Hd]|[_ Hd]]]]; [exfalso|now left|now right].
      unfold refof in S. rewrite Est in S. cbn in S. unfold load_reference in S. cbn [table_of] in S.
      rewrite Ur, Hnz in S. discriminate. }
    unfold v_field, field_unknown, field_is_z in Ea. rewrite Hn, Zf in Ea.
    assert (U : opt_eqb (Some (upper (name_idx prefix i))) (f_dt f) = false).
    { destruct Hdt as [-> | ->]; cbn [opt_eqb]; apply ValidateFacts.opt_eqb_false || idtac.
      - destruct (streqb_spec (upper (name_idx prefix i)) (unbs "ST")) as [E|]; [|reflexivity].
        rewrite name_idx_upper in E. exfalso. exact (name_idx_not_ST _ _ E).
      - destruct (streqb_spec (upper (name_idx prefix i)) (unbs "varies")) as [E|]; [|reflexivity].
        exfalso. exact (upper_not_varies _ (upper_idem _) E). }
    rewrite U in Ea. unfold check_z_field in Ea.
    assert (B : base (f_dt f) || is_varies (f_dt f) = true).
    { destruct Hdt as [-> | ->]; [now rewrite Hst|apply orb_true_r]. }
    rewrite B in Ea. injection Ea as <-. constructor.
  - (* a table segment *)
    cbn [ref_or_load] in H. rewrite Er in H. cbn [view_of] in H. unfold seg_seq in H.
    rewrite Forall_forall in Hside.
    assert (Hrow : forall vc, In (Some vc) (map (row_view t) rows) ->
              exists j row, nth_error rows j = Some row /\ row_view t row = Some vc /\
                vc_name vc = name_idx (s_name s) (S j) /\ upper (vc_name vc) = vc_name vc /\
                by_name (s_st s) (vc_name vc) = Some (mk_sentry (vc_name vc) (vc_ref vc) FIE) /\
                repetitions_of (s_st s) (vc_name vc) = Some (vc_mn vc, vc_mx vc) /\
                (vc_mx vc = -1 \/ 0 <= vc_mx vc)%Z).
    { intros vc Hvc. apply in_map_iff in Hvc. destruct Hvc as [row [Hv Hin]].
      apply In_nth_error in Hin. destruct Hin as [j Hj].
      destruct (row_view_ref t row vc Hv) as [Hrr Hrn].
      destruct (contiguous_nth (s_name s) FIE rows 1 j row Hc Hj) as [k' [mn [mx [Hrn' _]]]].
      rewrite Hrn in Hrn'. injection Hrn' as _ Hm _ _. change (1 + j) with (S j) in Hm.
      destruct Hrs as [Ho Hb _]. pose proof (Hb j row (vc_ref vc) Hj Hrr) as B. rewrite <- Hm in B.
      rewrite Er in Hp.
      destruct (rows_reps (SSeqIn false rows None) false rows None (s_name s) FIE (s_st s) eq_refl Hc
                  (frows_resolved t rows Hrows) Hp j row _ _ _ _ Hj Hrn) as [R [R0 R1]]. rewrite <- Hm in R.
      exists j, row. split; [exact Hj|]. split; [exact Hv|]. split; [exact Hm|].
      split; [now rewrite Hm, name_idx_upper, Hu|]. split; [exact B|]. split; [exact R|]. lia. }
    destruct (rows_parse' t (SSeqIn false rows None) false rows None (s_name s) FIE eq_refl Hc (frows_resolved t rows Hrows))
      as [st' [Hp' [_ [_ Hkey]]]].
    rewrite Er in Hp. rewrite Hp in Hp'. injection Hp' as <-.
    assert (Hord : st_ordered (s_st s) <> None) by (destruct Hrs as [Ho _ _]; rewrite Ho; discriminate).
    (* a declared child is called N_(j+1) for a row j; it is not a Z-field *)
    assert (Hdecl : forall k, In k (s_children s) -> exists j row, nth_error rows j = Some row /\
                      f_name k = Some (name_idx (s_name s) (S j)) /\ field_is_z k = false).
    { intros k Hin. destruct (Hside k Hin) as [n [Hn Hb]]. destruct (by_name (s_st s) n) as [en|] eqn:B; [|congruence].
      destruct (Hkey n en B) as [j [row [Hj [-> _]]]]. exists j, row. split; [exact Hj|]. split; [exact Hn|].
      unfold field_is_z. rewrite Hn. exact (not_z_field_name (s_name s) (S j) H3 Hu Z). }
    apply (check_seq_oklog _ _ _ _ _ _ _ _ H).
    + intros k Hin _. destruct (Hdecl k Hin) as [j [row [Hj [Hn _]]]]. rewrite Hn. cbn [omem].
      apply ValidateFacts.smem_In. unfold row_names. apply in_flat_map.
      destruct (row_view t row) as [vc|] eqn:Hv; [|exfalso; exact (frow_views_some t rows Hrows None (eq_ind _ (fun o => In o _) (in_map (row_view t) rows row (nth_error_In _ _ Hj)) _ Hv) eq_refl)].
      exists (Some vc). split; [rewrite <- Hv; apply in_map; exact (nth_error_In _ _ Hj)|].
      destruct (row_view_ref t row vc Hv) as [_ Hrn].
      destruct (contiguous_nth (s_name s) FIE rows 1 j row Hc Hj) as [k' [mn [mx [Hrn' _]]]].
      rewrite Hrn in Hrn'. injection Hrn' as _ Hm _ _. left. exact Hm.
    + intros vc n Hvc R. destruct (Hrow vc Hvc) as [j [row [Hj [Hv [Hm [Un [B [Rp Hmx]]]]]]]].
      assert (n = vc_name vc) by (apply (resolve_seg_canon s (vc_name vc) n _ Un Hord B eq_refl R)). subst n.
      destruct Hmx as [Hmx|Hmx]; [now left|right]. rewrite named_count. apply (Hci (s_st s) _ _ _ eq_refl Rp). lia.
    + intros vc n k a Hvc R Hin Hnamed Ha. destruct (Hrow vc Hvc) as [j [row [Hj [Hv [Hm [Un [B [Rp Hmx]]]]]]]].
      assert (n = vc_name vc) by (apply (resolve_seg_canon s (vc_name vc) n _ Un Hord B eq_refl R)). subst n.
      unfold is_named in Hnamed. apply ValidateFacts.opt_eqb_true in Hnamed.
      destruct (Hdecl k Hin) as [_ [_ [_ [_ Zk]]]].
      destruct (Hs _ _ B) as [_ [Gr _]]. cbn [se_ref] in Gr.
      destruct (row_view_ref t row vc Hv) as [Hrr Hrn].
      (* the row is written by name: an inline row has maximum 0 and cannot have a child *)
      assert (Hby : slookup (vc_name vc) (t_fields t) = Some (vc_ref vc)).
      { destruct (Hrows row (nth_error_In _ _ Hj)) as [[m [mn [mx [r' [-> E']]]]]|[m [r' [mn [mx [-> _]]]]]].
        * cbn [row_name] in Hrn. injection Hrn as _ <- _ _. cbn [row_ref table_of] in Hrr. exact Hrr.
        * exfalso. pose proof (Hsin _ _ Hl _ _ _ _ _ _ (nth_error_In _ _ Hj) eq_refl) as M0.
          cbn [row_name] in Hrn. injection Hrn as _ _ _ Hmx'. rewrite M0 in Hmx'.
          pose proof (Hci (s_st s) _ _ _ eq_refl Rp) as C0. rewrite <- Hmx' in C0.
          pose proof (count_named_in f_name _ _ k Hin Hnamed). lia. }
      destruct (Hk k Hin) as [i [fv [Hn0 [Henc Hx]]]]. rewrite Hnamed in Hn0. injection Hn0 as Hn0.
      assert (Hfb : fbuilt (vc_ref vc) k).
      { unfold refof, has_map in Hx. destruct (st_ordered (s_st s)) as [o|] eqn:Eo; [|congruence]. cbn [opt_is_some opt_is_none negb] in Hx.
        destruct (ref_in (Some (s_st s)) (name_idx prefix i)) as [r'|] eqn:Eri.
        * destruct (ref_in_by_name _ _ _ Eri) as [en' [B' Ee]]. destruct (Hs _ _ B') as [U' _].
          rewrite U' in Hn0. rewrite <- Hn0 in B'. rewrite B in B'. injection B' as <-. cbn [se_ref] in Ee. subst r'.
          destruct Hx as [[st [S Hfb]]|[S _]].
          -- cbn [structure_for] in S. now rewrite (proj2 (parse_structure_info t _ _ S)) in Hfb.
          -- cbn [structure_for] in S. exfalso. exact (Proofs.StrictSim.parse_structure_not_hl7 t _ _ S).
        * rewrite <- Hn0 in Hx. destruct Hx as [[st [S Hfb]]|[S _]]; unfold structure_for, load_reference in S; cbn [table_of] in S; rewrite Hby in S.
          -- now rewrite (proj2 (parse_structure_info t _ _ S)) in Hfb.
          -- exfalso. exact (Proofs.StrictSim.parse_structure_not_hl7 t _ _ S). }
      apply (v_field_oklog e (Some (s_name s)) (vc_ref vc) k a Gr); [|exact Zk|congruence|exact Ha].
      destruct Hfb as [Hd Hseq]. split; [|split; [exact Hd|split; [exact Henc|exact Hseq]]].
      unfold field_unknown. rewrite Hnamed, Hd. apply ValidateFacts.opt_eqb_false. intros E. exact (Hfu _ _ Hby (eq_sym E)).
    + intros k a Hin Zk _. exfalso. destruct (Hdecl k Hin) as [_ [_ [_ [_ Zk']]]]. congruence.
Qed.

(* ---------- the side conditions are necessary ---------- *)
Lemma zseg_head N : length N = 3 -> upper N = N -> valid_z_segment_name N = true -> exists r, N = "Z"%byte :: r.
Proof.
  intros _ Hu Hz. unfold valid_z_segment_name in Hz. rewrite Hu in Hz. destruct N as [|c r]; [discriminate|].
  apply andb_prop in Hz. destruct Hz as [Hz _]. destruct (beqb_spec c "Z"%byte) as [->|]; [eauto|discriminate].
Qed.

Theorem v_seg_side_necessary s l : sseg_post s -> v_seg t e (Some (st_reference (s_st s))) s = Ok l ->
  forall f, In f (s_children s) ->
    (if seg_is_z s then field_is_z f = false
     else forall n, f_name f = Some n -> by_name (s_st s) n = None) ->
  exists x, In x (errors_of l) /\ ~ is_missing_required x.
Proof.
  intros [[prefix [Hpre Hk]] [Hp [Hci [Hs [H3 [Hu Hcase]]]]]] H f Hf Hbad. unfold v_seg in H.
  rewrite Forall_forall in Hk. destruct (Hk f Hf) as [i [fv [Hn [_ Hx]]]].
  assert (Hn' : f_name f = Some (name_idx (s_name s) i)) by (now rewrite Hn, name_idx_upper, <- Hpre).
  destruct Hcase as [[Z Est]|[Z [rows [Hl [Er [Hrs [Hrows Hc]]]]]]]; rewrite Z in H, Hbad.
  - (* Z-segment, a field that is not a Z-field: the validator looks its name up in the field table *)
    destruct (zseg_head _ H3 Hu Z) as [r0 Er0].
    assert (Hnone : slookup (name_idx (s_name s) i) (t_fields t) = None).
    { unfold name_idx. rewrite Er0. cbn [app]. apply Hnz. }
    assert (Ha : v_field t e (Some (s_name s)) None f = Ok [VE (InvalidElement (f_name f))]).
    { unfold v_field. rewrite Hbad.
      assert (U : field_unknown f = false).
      { unfold field_unknown. rewrite Hn. apply ValidateFacts.opt_eqb_false. intros E.
        destruct Hx as [[st [S _]]|[_ [[_ Hd]|[_ Hd]]]].
        - unfold refof in S. rewrite Est in S. cbn in S. unfold load_reference in S. cbn [table_of] in S.
          rewrite name_idx_upper, <- Hpre, Hnone in S. discriminate.
        - rewrite Hd in E. injection E as E. rewrite name_idx_upper in E. exact (name_idx_not_ST _ _ E).
        - rewrite Hd in E. injection E as E. exact (upper_not_varies _ (upper_idem _) E). }
      rewrite U, Hn'. cbn [ref_or_load]. now rewrite Hnone. }
    exists (InvalidElement (f_name f)). split; [|intros []].
    apply ValidateFacts.errors_of_In.
    assert (Inc : incl [VE (InvalidElement (f_name f))] l).
    { apply (ValidateFacts.seq_res_incl _ _ _ H). rewrite <- Ha. apply in_map. exact Hf. }
    apply Inc. now left.
  - (* a table segment, a field that its structure does not declare *)
    cbn [ref_or_load] in H. rewrite Er in H. cbn [view_of] in H. unfold seg_seq in H.
    assert (Zf : field_is_z f = false).
    { unfold field_is_z. rewrite Hn'. exact (not_z_field_name (s_name s) i H3 Hu Z). }
    assert (Hm : omem (f_name f) (row_names (map (row_view t) rows)) = false).
    { rewrite Hn'. cbn [omem]. destruct (smem _ _) eqn:M; [|reflexivity]. exfalso.
      apply ValidateFacts.smem_In in M. unfold row_names in M. apply in_flat_map in M. destruct M as [o [Ho Hin]].
      destruct o as [vc|]; [|destruct Hin]. destruct Hin as [Hin|[]].
      apply in_map_iff in Ho. destruct Ho as [row [Hv Hrow]].
      destruct (row_view_ref t row vc Hv) as [Hrr Hrn].
      apply In_nth_error in Hrow. destruct Hrow as [j Hj].
      destruct (contiguous_nth (s_name s) FIE rows 1 j row Hc Hj) as [k' [mn [mx [Hrn' _]]]].
      rewrite Hrn in Hrn'. injection Hrn' as _ Hm _ _. change (1 + j) with (S j) in Hm.
      destruct Hrs as [_ Hb _]. pose proof (Hb j row (vc_ref vc) Hj Hrr) as B. rewrite <- Hm, Hin in B.
      rewrite (Hbad _ Hn') in B. discriminate. }
    destruct (ValidateFacts.check_seq_foreign _ _ _ _ _ _ _ _ _ _ H Hf Zf Hm) as [names [Hin _]].
    exists (InvalidChildren (Some (s_name s)) names). split; [exact Hin|intros []].
Qed.

End Final.

(* C05, segment level: a STRICT-parsed segment (any text, delimiters, leaf function) only draws
   "Missing required child" from the validator, under the two side conditions *)
Theorem strict_enforces e leaf text s e' errs :
  parse_segment t STRICT e leaf text None = Ok s -> strict_side s ->
  validate_errors t e' s = Ok errs -> Forall is_missing_required errs.
Proof.
  intros H Hside Hv. pose proof (sp_inv anyx _ _ s (parse_segment_S e leaf text) H) as P.
  unfold validate_errors, validate_seg_log, lift_errors in Hv.
  destruct (v_seg t e' (Some (st_reference (s_st s))) s) as [l|x] eqn:E; [|discriminate]. injection Hv as <-.
  apply oklog_errors. exact (v_seg_oklog e' s l P Hside E).
Qed.

(* ... and the side condition is exact: a STRICT-parsed segment that violates it does draw another error *)
Theorem strict_side_exact e leaf text s e' errs :
  parse_segment t STRICT e leaf text None = Ok s -> validate_errors t e' s = Ok errs ->
  (Forall is_missing_required errs <-> strict_sideb s = true).
Proof.
  intros H Hv. split; [|intros Hs; exact (strict_enforces e leaf text s e' errs H (strict_sideb_spec s Hs) Hv)].
  intros F. destruct (strict_sideb s) eqn:B; [reflexivity|exfalso].
  pose proof (sp_inv anyx _ _ s (parse_segment_S e leaf text) H) as P.
  unfold validate_errors, validate_seg_log, lift_errors in Hv.
  destruct (v_seg t e' (Some (st_reference (s_st s))) s) as [l|x] eqn:E; [|discriminate]. injection Hv as <-.
  assert (Bad : exists f, In f (s_children s) /\
            (if seg_is_z s then field_is_z f = false else forall n, f_name f = Some n -> by_name (s_st s) n = None)).
  { unfold strict_sideb in B. destruct (seg_is_z s).
    - assert (X : existsb (fun f => negb (field_is_z f)) (s_children s) = true).
      { clear -B. induction (s_children s) as [|f l IH]; [discriminate|]. cbn in *. destruct (field_is_z f); cbn in *; auto. }
      apply existsb_exists in X. destruct X as [f [Hf Hz]]. exists f. split; [exact Hf|]. now apply negb_true_iff.
    - assert (X : existsb (fun f => negb (match f_name f with Some n => opt_is_some (by_name (s_st s) n) | None => false end)) (s_children s) = true).
      { clear -B. induction (s_children s) as [|f l IH]; [discriminate|]. cbn [forallb existsb] in *.
        destruct (match f_name f with Some n => opt_is_some (by_name (s_st s) n) | None => false end); cbn in *; auto. }
      apply existsb_exists in X. destruct X as [f [Hf Hz]]. exists f. split; [exact Hf|].
      intros n Hn. rewrite Hn in Hz. destruct (by_name (s_st s) n); [discriminate|reflexivity]. }
  destruct Bad as [f [Hf Hbad]].
  destruct (v_seg_side_necessary e' s l P E f Hf Hbad) as [x [Hx Hnm]].
  rewrite Forall_forall in F. exact (Hnm (F x Hx)).
Qed.

End VS.
