(* The pieces of a message text as parse_segments sees them after the CR LF fix (parser.py strips the
   piece BEFORE taking its name and skips the pieces that are blank after stripping):
     - every piece is stripped and non-empty                          (pieces_stripped, pieces_nonempty)
     - pieces of CR-joined lines                                      (pieces_bjoin, pieces_lines)
     - LF after every CR, blank padding of the lines, blank lines and a trailing CR (LF) do not change
       the pieces                                                     (pieces_crlf, pieces_pad, ...)  *)
From Coq Require Import List Bool Arith Lia Init.Byte.
From HL7 Require Import Lib.Str Model.Ec Model.Result Model.Ref Model.Tree Model.Parser Model.MsgTree
                        Model.Groups Proofs.SplitJoin.
Import ListNotations.
Open Scope bs_scope.

(* ------------------------------------------------------------------ *)
(* strip                                                                *)

Lemma lstrip_by_fix {A} (p : A -> bool) s :
  match s with c :: _ => p c = false | [] => True end -> lstrip_by p s = s.
Proof. destruct s as [|c r]; [reflexivity|]. intros H. cbn [lstrip_by]. now rewrite H. Qed.

Lemma lstrip_by_hd {A} (p : A -> bool) s :
  match lstrip_by p s with c :: _ => p c = false | [] => True end.
Proof.
  induction s as [|x r IH]; [exact I|]. cbn [lstrip_by]. destruct (p x) eqn:E; [exact IH|exact E].
Qed.

Lemma rstrip_by_hd {A} (p : A -> bool) s :
  match s with c :: _ => p c = false | [] => True end ->
  match rstrip_by p s with c :: _ => p c = false | [] => True end.
Proof.
  intros H. destruct (remove_trailing_prefix p s) as [m [E _]].
  change (remove_trailing p s) with (rstrip_by p s) in E.
  destruct (rstrip_by p s) as [|c r]; [exact I|]. rewrite E in H. exact H.
Qed.

Lemma strip_by_idem {A} (p : A -> bool) s : strip_by p (strip_by p s) = strip_by p s.
Proof.
  unfold strip_by. rewrite (lstrip_by_fix p (rstrip_by p (lstrip_by p s))).
  - exact (remove_trailing_idem p (lstrip_by p s)).
  - apply rstrip_by_hd. apply lstrip_by_hd.
Qed.

Lemma strip_idem s : strip (strip s) = strip s.
Proof. apply strip_by_idem. Qed.

Lemma lstrip_by_app_keep' {A} (p : A -> bool) (x y : list A) :
  lstrip_by p x <> [] -> lstrip_by p (x ++ y) = lstrip_by p x ++ y.
Proof.
  induction x as [|a x IH]; cbn [lstrip_by app]; [congruence|].
  destruct (p a); [exact IH|reflexivity].
Qed.

(* blanks around a text do not survive strip *)
Lemma strip_by_pad {A} (p : A -> bool) pre s post :
  forallb p pre = true -> forallb p post = true -> strip_by p (pre ++ s ++ post) = strip_by p s.
Proof.
  intros Hpre Hpost. unfold strip_by. rewrite (lstrip_by_app_all A p pre _ Hpre).
  destruct (lstrip_by p s) as [|c r] eqn:E.
  - assert (Hs : forallb p s = true).
    { clear -E. induction s as [|x s IH]; [reflexivity|]. cbn [lstrip_by forallb] in *.
      destruct (p x); [now apply IH|discriminate]. }
    rewrite (lstrip_by_app_all A p s post Hs), (lstrip_by_all A p post Hpost). reflexivity.
  - rewrite lstrip_by_app_keep' by (rewrite E; discriminate). rewrite E.
    exact (remove_trailing_app_all p (c :: r) post Hpost).
Qed.

Lemma strip_pad pre s post :
  forallb is_space pre = true -> forallb is_space post = true -> strip (pre ++ s ++ post) = strip s.
Proof. apply strip_by_pad. Qed.

Lemma strip_lf s : strip ("010"%byte :: s) = strip s.
Proof. unfold strip, strip_by. reflexivity. Qed.

(* ------------------------------------------------------------------ *)
(* pieces                                                               *)

Notation nonnil := (fun s : str => match s with [] => false | _ => true end).

Lemma pieces_stripped text : Forall (fun l => strip l = l) (pieces text).
Proof.
  unfold pieces. apply Forall_forall. intros l Hin. apply filter_In in Hin. destruct Hin as [Hin _].
  apply in_map_iff in Hin. destruct Hin as [x [<- _]]. apply strip_idem.
Qed.

Lemma pieces_nonempty text : Forall (fun l => l <> []) (pieces text).
Proof.
  unfold pieces. apply Forall_forall. intros l Hin. apply filter_In in Hin. destruct Hin as [_ H].
  destruct l; [discriminate|discriminate].
Qed.

Lemma pieces_bjoin lines : lines <> [] -> Forall (fun l => bmem CR l = false) lines ->
  pieces (bjoin CR lines) = filter nonnil (map strip lines).
Proof.
  intros Hne H. unfold pieces. rewrite bsplit_bjoin; [reflexivity|exact Hne|].
  rewrite forallb_forall. rewrite Forall_forall in H. intros l Hl. apply nosep_of_bmem. exact (H l Hl).
Qed.

Lemma pieces_lines lines : lines <> [] ->
  Forall (fun l => l <> [] /\ bmem CR l = false /\ strip l = l) lines -> pieces (bjoin CR lines) = lines.
Proof.
  intros Hne H. rewrite pieces_bjoin; [|exact Hne|eapply Forall_impl; [|exact H]; intros l [_ [B _]]; exact B].
  clear Hne. induction H as [|l ls [Hl [_ Hs]] _ IH]; [reflexivity|]. cbn [map filter]. rewrite Hs.
  destruct l; [congruence|]. now rewrite IH.
Qed.

(* the same lines up to surrounding white space give the same pieces *)
Lemma pieces_bjoin_ext lines lines' : lines <> [] -> lines' <> [] ->
  Forall (fun l => bmem CR l = false) lines -> Forall (fun l => bmem CR l = false) lines' ->
  map strip lines = map strip lines' -> pieces (bjoin CR lines) = pieces (bjoin CR lines').
Proof. intros N N' H H' E. now rewrite (pieces_bjoin lines N H), (pieces_bjoin lines' N' H'), E. Qed.

(* ------------------------------------------------------------------ *)
(* CR LF line ends: text.replace('\r', '\r\n')                          *)

Definition LF : byte := "010"%byte.
Definition crlf (text : str) : str := breplace1 CR [CR; LF] text.

Lemma split_aux_cur c cur s :
  split_aux beqb c cur s = match split_aux beqb c [] s with f :: r => (rev cur ++ f) :: r | [] => [] end.
Proof.
  revert cur. induction s as [|x s IH]; intros cur; cbn [split_aux].
  - cbn [rev app]. now rewrite app_nil_r.
  - destruct (beqb x c).
    + cbn [rev app]. now rewrite app_nil_r.
    + rewrite (IH (x :: cur)), (IH [x]). destruct (split_aux beqb c [] s) as [|f r]; [reflexivity|].
      cbn [rev app]. now rewrite <- app_assoc.
Qed.

Lemma bsplit_crlf text :
  bsplit CR (crlf text) = match bsplit CR text with f :: r => f :: map (cons LF) r | [] => [] end.
Proof.
  unfold bsplit, split, crlf, breplace1.
  assert (G : forall s cur, split_aux beqb CR cur (replace1 beqb CR [CR; LF] s)
                            = match split_aux beqb CR cur s with f :: r => f :: map (cons LF) r | [] => [] end).
  { induction s as [|x s IH]; intros cur; cbn [replace1 split_aux]; [reflexivity|].
    destruct (beqb x CR) eqn:E; cbn [app split_aux].
    - rewrite beqb_refl. change (beqb LF CR) with false. cbv iota.
      rewrite (IH [LF]). rewrite (split_aux_cur CR [LF] s).
      destruct (split_aux beqb CR [] s) as [|f r]; reflexivity.
    - rewrite E. apply IH. }
  apply G.
Qed.

Lemma pieces_crlf text : pieces (crlf text) = pieces text.
Proof.
  unfold pieces. rewrite bsplit_crlf. destruct (bsplit CR text) as [|f r]; [reflexivity|].
  cbn [map]. f_equal. f_equal. rewrite map_map. apply map_ext. intros a. apply strip_lf.
Qed.

(* a trailing CR, CR LF, or any blank tail after a CR adds no piece *)
Lemma pieces_trailing text tail : forallb is_space tail = true -> bmem CR tail = false ->
  pieces (text ++ CR :: tail) = pieces text.
Proof.
  intros Hsp Hcr.
  assert (E : text ++ CR :: tail = bjoin CR (bsplit CR text ++ [tail])).
  { unfold bjoin. rewrite (join_app byte CR (bsplit CR text) [tail]); [|apply bsplit_ne|discriminate].
    fold (bjoin CR (bsplit CR text)). now rewrite bjoin_bsplit. }
  unfold pieces at 1. rewrite E, bsplit_bjoin.
  - rewrite map_app, filter_app. cbn [map filter].
    replace (strip tail) with (@nil byte); [now rewrite app_nil_r|].
    symmetry. unfold strip, strip_by. now rewrite (lstrip_by_all byte is_space tail Hsp).
  - intros H. apply (bsplit_ne CR text). now destruct (bsplit CR text).
  - rewrite forallb_app. cbn [forallb]. rewrite (nosep_of_bmem CR tail Hcr). cbn [andb]. rewrite andb_true_r.
    clear. unfold bsplit, split.
    assert (G : forall s cur, nosep beqb CR cur = true -> forallb (nosep beqb CR) (split_aux beqb CR cur s) = true).
    { induction s as [|x s IH]; intros c H; cbn [split_aux forallb].
      - rewrite andb_true_r. unfold nosep in *. rewrite forallb_forall in *. intros y Hy. apply H. now apply in_rev.
      - destruct (beqb x CR) eqn:Ex; cbn [forallb].
        + rewrite (IH [] eq_refl), andb_true_r. unfold nosep in *. rewrite forallb_forall in *. intros y Hy. apply H. now apply in_rev.
        + apply IH. unfold nosep. cbn [forallb]. now rewrite Ex. }
    apply G. reflexivity.
Qed.
