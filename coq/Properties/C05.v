(* C05 - STRICT accepts a subset of TOLERANT and enforces what validate() checks.
   Proved here (for all trees, tables and texts): every STRICT-only branch of child admission at the
   three levels (Segment.add/_is_valid_child, Field.add, Component.add, ElementList._can_add_child
   cardinality) and of textual leaf construction only REFUSES - whatever STRICT admits, TOLERANT
   admits with the identical result.  The full simulation statement
       parse_x STRICT a = Ok t -> exists t', parse_x TOLERANT a = Ok t' /\ erase_level t' = erase_level t
   additionally needs the constructors' STRICT branches (Tree.v) and the datatype layer (C13); until
   that proof is complete it is decided by the both-levels model differential and the oracle of
   harness/c05.py, as is the clause "STRICT-accepted => validator reports only missing required
   children" (known findings F14, F18). *)
From Coq Require Import List Bool NArith Init.Byte.
From HL7 Require Import Lib.Str Model.Ec Model.Result Model.Ref Model.Tree Model.Parser Model.Leaf
     Proofs.StrictSubset Gen.Params.
Import ListNotations.
Open Scope bs_scope.

Theorem C05_admission_subset_fields : forall t kids s s',
  add_fields t STRICT s kids = Ok s' -> add_fields t TOLERANT s kids = Ok s'.
Proof. exact add_fields_subset. Qed.
Print Assumptions C05_admission_subset_fields.

Theorem C05_admission_subset_components : forall t kids f f',
  add_comps t STRICT f kids = Ok f' -> add_comps t TOLERANT f kids = Ok f'.
Proof. exact add_comps_subset. Qed.
Print Assumptions C05_admission_subset_components.

Theorem C05_admission_subset_subcomponents : forall t kids c c',
  add_subs t STRICT c kids = Ok c' -> add_subs t TOLERANT c kids = Ok c'.
Proof. exact add_subs_subset. Qed.
Print Assumptions C05_admission_subset_subcomponents.

Theorem C05_textual_leaf_subset : forall v e dt s x,
  leaf_enc v STRICT e dt s = Ok x -> leaf_enc v TOLERANT e dt s = Ok x.
Proof. exact leaf_enc_subset. Qed.
Print Assumptions C05_textual_leaf_subset.

(* STRICT really refuses something TOLERANT takes (the inclusion is proper) *)
Example C05_strict_refuses_overlong :
  leaf_enc "2.5" STRICT default_ec (Some (unbs "IS")) "ABCDEFGHIJKLMNOPQRSTUVWXYZ" = Err (HL7 EMaxLengthReached) /\
  leaf_enc "2.5" TOLERANT default_ec (Some (unbs "IS")) "ABCDEFGHIJKLMNOPQRSTUVWXYZ" = Ok (unbs "ABCDEFGHIJKLMNOPQRSTUVWXYZ").
Proof. vm_compute. auto. Qed.
