(* C05 - STRICT accepts a subset of TOLERANT and enforces what validate() checks.
   Proved here (for all trees, tables and texts): every STRICT-only branch of child acceptance at the
   three levels (Segment.add/_is_valid_child, Field.add, Component.add, ElementList._can_add_child
   cardinality) and of textual leaf construction only REFUSES - whatever STRICT accepts, TOLERANT
   accepts with the identical result.  The full simulation statement
       parse_x STRICT a = Ok t -> exists t', parse_x TOLERANT a = Ok t' /\ erase_level t' = erase_level t
   additionally needs the constructors' STRICT branches (Tree.v) and the datatype layer (C13); until
   that proof is complete it is decided by the both-levels model differential and the oracle of
   harness/c05.py, as is the clause "STRICT-accepted => validator reports only missing required
   children" (known findings F14, F18). *)
From Coq Require Import List Bool NArith Init.Byte.
From HL7 Require Import Lib.Str Model.Ec Model.Result Model.Ref Model.Tree Model.Parser Model.Leaf
     Proofs.StrictSubset Gen.Params.
Import ListNotations.
Open Scope bs_scope.

Theorem C05_acceptance_subset_fields : forall t kids s s',
  add_fields t STRICT s kids = Ok s' -> add_fields t TOLERANT s kids = Ok s'.
Proof. exact add_fields_subset. Qed.
Print Assumptions C05_acceptance_subset_fields.

Theorem C05_acceptance_subset_components : forall t kids f f',
  add_comps t STRICT f kids = Ok f' -> add_comps t TOLERANT f kids = Ok f'.
Proof. exact add_comps_subset. Qed.
Print Assumptions C05_acceptance_subset_components.

Theorem C05_acceptance_subset_subcomponents : forall t kids c c',
  add_subs t STRICT c kids = Ok c' -> add_subs t TOLERANT c kids = Ok c'.
Proof. exact add_subs_subset. Qed.
Print Assumptions C05_acceptance_subset_subcomponents.

Theorem C05_textual_leaf_subset : forall v e dt s x,
  leaf_enc v STRICT e dt s = Ok x -> leaf_enc v TOLERANT e dt s = Ok x.
Proof. exact leaf_enc_subset. Qed.
Print Assumptions C05_textual_leaf_subset.

(* STRICT really refuses something TOLERANT takes (the inclusion is proper) *)
Example C05_strict_refuses_overlong :
  leaf_enc "2.5" STRICT default_ec (Some (unbs "IS")) "ABCDEFGHIJKLMNOPQRSTUVWXYZ" = Err (HL7 EMaxLengthReached) /\
  leaf_enc "2.5" TOLERANT default_ec (Some (unbs "IS")) "ABCDEFGHIJKLMNOPQRSTUVWXYZ" = Ok (unbs "ABCDEFGHIJKLMNOPQRSTUVWXYZ").
Proof. vm_compute. auto. Qed.

(* ============================================================================================ *)
(* PARSE-LEVEL SIMULATION (supersedes the remark in the header: the constructors' STRICT branches
   are now covered).  Whatever parse_component / parse_field / parse_segment accept under STRICT
   they accept under TOLERANT and the tree is THE SAME (trees carry no level) - for every text,
   every table in which 'ST' is a base datatype and '' is not, every delimiter set, every
   reference, and every pair of leaf functions such that STRICT's successes are TOLERANT's.
   Proofs/StrictSim.v goes through every `is_strict` / `negb is_strict` branch of Model/Tree.v and
   Model/Parser.v: STRICT-only branches only raise; the TOLERANT-only reconstruction of a
   component's reference needs a complex datatype ARGUMENT, which the parser never passes (side
   condition dt_simple; without it the statement is false, C05_component_ctor_subset_refuted); the
   TOLERANT-only datatype reset of a base-typed element with several children is never reached
   on a STRICT-accepted input because STRICT refuses the second child. *)
From HL7 Require Import Model.Encode Gen.Tables Proofs.StrictSim Proofs.StrictSimTables.
From HL7 Require Gen.Tables_v2_5.

Theorem C05_parse_component_subset : forall t e leafS leafT,
  (forall dt x y, leafS dt x = Ok y -> leafT dt x = Ok y) ->
  base t (Some (unbs "ST")) = true -> base t (Some []) = false ->
  forall text name datatype reference c,
  datatype = None \/ base t datatype = true ->          (* what parse_components passes *)
  parse_component t STRICT e leafS text name datatype reference = Ok c ->
  parse_component t TOLERANT e leafT text name datatype reference = Ok c.
Proof. intros t e lS lT Hl Hst Hnb text name dt r c. exact (parse_component_subset t e lS lT Hl Hst Hnb text name dt r c). Qed.
Print Assumptions C05_parse_component_subset.

Theorem C05_parse_field_subset : forall t e leafS leafT,
  (forall dt x y, leafS dt x = Ok y -> leafT dt x = Ok y) ->
  base t (Some (unbs "ST")) = true -> base t (Some []) = false ->
  forall text name reference force_varies f,
  name <> Some [] ->                                     (* parse_fields passes NAME_i *)
  parse_field t STRICT e leafS text name reference force_varies = Ok f ->
  parse_field t TOLERANT e leafT text name reference force_varies = Ok f.
Proof. intros t e lS lT Hl Hst Hnb text name r fv f. exact (parse_field_subset t e lS lT Hl Hst Hnb text name r fv f). Qed.
Print Assumptions C05_parse_field_subset.

Theorem C05_parse_segment_subset : forall t e leafS leafT,
  (forall dt x y, leafS dt x = Ok y -> leafT dt x = Ok y) ->
  base t (Some (unbs "ST")) = true -> base t (Some []) = false ->
  forall (text : str) reference s,
  parse_segment t STRICT e leafS text reference = Ok s ->
  parse_segment t TOLERANT e leafT text reference = Ok s.
Proof. intros t e lS lT Hl Hst Hnb text r s. exact (parse_segment_subset t e lS lT Hl Hst Hnb text r s). Qed.
Print Assumptions C05_parse_segment_subset.

(* every shipped version, the real leaf layer (Model/Leaf.v), any reference (standard or profile) *)
Theorem C05_parse_segment_subset_shipped : forall v t e (text : str) reference s, tables_of v = Some t ->
  parse_segment t STRICT e (leaf_enc v STRICT e) text reference = Ok s ->
  parse_segment t TOLERANT e (leaf_enc v TOLERANT e) text reference = Ok s.
Proof. exact shipped_parse_segment_subset. Qed.
Print Assumptions C05_parse_segment_subset_shipped.

(* corollary: the two levels give the same ER7 for a line STRICT accepts *)
Theorem C05_parse_segment_same_er7 : forall v t e (text : str) reference s, tables_of v = Some t ->
  parse_segment t STRICT e (leaf_enc v STRICT e) text reference = Ok s ->
  exists s', parse_segment t TOLERANT e (leaf_enc v TOLERANT e) text reference = Ok s' /\
             forall e' trailing, enc_segment t e' s' trailing = enc_segment t e' s trailing.
Proof.
  intros v t e text r s Ht H. exists s. split; [exact (shipped_parse_segment_subset v t e text r s Ht H)|reflexivity].
Qed.
Print Assumptions C05_parse_segment_same_er7.

(* the side condition on the constructor cannot be dropped: Component('VARIES_1', datatype='CE')
   is built under STRICT and refused (ChildNotFound) under TOLERANT - in the model and in hl7apy *)
Theorem C05_component_ctor_subset_refuted :
  ~ (forall t name datatype reference c,
       mk_component t STRICT name datatype reference = Ok c ->
       mk_component t TOLERANT name datatype reference = Ok c).
Proof.
  intros H. destruct component_ctor_witness as [[c Hc] Ht].
  rewrite (H _ _ _ _ _ Hc) in Ht. discriminate.
Qed.
Print Assumptions C05_component_ctor_subset_refuted.

(* the hypotheses are satisfiable; the inclusion is proper at the parse level too *)
Example C05_parse_examples :
  tables_of "2.5" = Some Gen.Tables_v2_5.tables /\
  base Gen.Tables_v2_5.tables (Some (unbs "ST")) = true /\ base Gen.Tables_v2_5.tables (Some []) = false /\
  (let P lvl (s : str) := parse_segment Gen.Tables_v2_5.tables lvl default_ec (leaf_enc "2.5" lvl default_ec) s None in
   outcome_code (P STRICT "PID|1^2") = 6 /\ outcome_code (P TOLERANT "PID|1^2") = 0 /\
   outcome_code (P STRICT "PID|1||a^^^b&c") = 0 /\
   match P STRICT "PID|1||a^^^b&c", P TOLERANT "PID|1||a^^^b&c" with
   | Ok a, Ok b => enc_segment Gen.Tables_v2_5.tables default_ec a false = Ok (unbs "PID|1||a^^^b&c") /\
                   enc_segment Gen.Tables_v2_5.tables default_ec b true = enc_segment Gen.Tables_v2_5.tables default_ec a true
   | _, _ => False
   end).
Proof. vm_compute. repeat split; reflexivity. Qed.

(* the same with the datatype factories of C13 plugged into the leaves (Model/LeafFull.v: DT, TM,
   DTM, NM, SI and TN validate the value; STRICT raises ValueError where TOLERANT falls back to ST) *)
From HL7 Require Import Model.LeafFull.
Theorem C05_leaf_full_subset : forall v e dt s x,
  leaf_enc_full v STRICT e dt s = Ok x -> leaf_enc_full v TOLERANT e dt s = Ok x.
Proof. exact leaf_enc_full_subset. Qed.
Print Assumptions C05_leaf_full_subset.

Theorem C05_parse_segment_subset_full_leaf : forall v t e (text : str) reference s, tables_of v = Some t ->
  parse_segment t STRICT e (leaf_enc_full v STRICT e) text reference = Ok s ->
  parse_segment t TOLERANT e (leaf_enc_full v TOLERANT e) text reference = Ok s.
Proof. exact shipped_parse_segment_subset_full. Qed.
Print Assumptions C05_parse_segment_subset_full_leaf.

(* ============================================================================================ *)
(* "An element accepted by STRICT construction never draws a validator error other than a missing
   required child" - SEGMENT LEVEL, for every text, every shipped version, every delimiter set and ANY
   leaf function.  The unrestricted statement is FALSE of the faithful model and of hl7apy
   (C05_strict_enforces_refuted: finding F14, and C05_strict_enforces_refuted_zsegment: a new
   finding); it holds under the side condition `strict_side`:
     - a segment that is not a Z-segment has no field beyond its table: every child is declared by the
       segment's structure (an open-ended, varies-last segment accepts SEG_k for every k under STRICT;
       the validator reports "Invalid children detected");
     - every field of a Z-segment is a Z-field: the segment test is name[0] == 'Z' and len == 3, the
       field test is ^z[a-z1-9]{2}_\d+$; 'Z0X|a' gives a plain varies field Z0X_1 that the validator
       does not find in the tables ("Invalid element found").
   Proofs/StrictEnforces.v: what STRICT construction and STRICT acceptance guarantee of the tree is
   what the validator checks besides the minimum cardinalities - datatype = the datatype of the
   reference (no WrongDatatype), no unknown child below a complex parent (no UnknownElement), every
   child declared and built under the reference the validator holds against it (no InvalidChildren /
   InvalidElement; the inline withdrawn-field rows of v2.6-v2.8 have maximum 0, STRICT refuses them),
   per-name counts within the maximum (no LimitExceeded).  Proofs/StrictEnforcesTables.v: the table
   premises for all shipped versions (vm_compute) and the witnesses. *)
From HL7 Require Import Model.Validate Proofs.StrictEnforces Proofs.StrictEnforcesTables.

Theorem C05_strict_enforces_partial : forall v t e leaf (text : str) s e' errs, tables_of v = Some t ->
  parse_segment t STRICT e leaf text None = Ok s ->
  strict_side s ->
  validate_errors t e' s = Ok errs ->
  Forall is_missing_required errs.
Proof. exact shipped_strict_enforces. Qed.
Print Assumptions C05_strict_enforces_partial.

(* with the decidable form of the side condition *)
Theorem C05_strict_enforces_partial_checked : forall v t e leaf (text : str) s e' errs, tables_of v = Some t ->
  parse_segment t STRICT e leaf text None = Ok s ->
  strict_sideb s = true ->
  validate_errors t e' s = Ok errs ->
  forall x, In x errs -> exists parent child, x = MissingRequired parent child.
Proof.
  intros v t e leaf text s e' errs Ht H Hs Hv x Hx.
  pose proof (shipped_strict_enforces v t e leaf text s e' errs Ht H (strict_sideb_spec s Hs) Hv) as F.
  rewrite Forall_forall in F. specialize (F x Hx). destruct x; try contradiction. eauto.
Qed.
Print Assumptions C05_strict_enforces_partial_checked.

(* together with C15_validate_segment_total: the report exists and holds nothing but missing
   required children *)
From HL7 Require Import Proofs.ValidateTotalTables.
Theorem C05_strict_then_validate : forall v t e leaf (text : str) s e', tables_of v = Some t ->
  parse_segment t STRICT e leaf text None = Ok s -> strict_side s ->
  exists errs, validate_errors t e' s = Ok errs /\ Forall is_missing_required errs.
Proof.
  intros v t e leaf text s e' Ht H Hs.
  destruct (shipped_parse_segment_validates v t STRICT e leaf text s e' Ht H) as [errs Hv].
  exists errs. split; [exact Hv|]. exact (shipped_strict_enforces v t e leaf text s e' errs Ht H Hs Hv).
Qed.
Print Assumptions C05_strict_then_validate.

(* the side condition is EXACT: a STRICT-parsed segment draws only missing-required errors if and only
   if it satisfies it (an undeclared field draws "Invalid children detected", a non-Z field of a
   Z-segment draws "Invalid element found") *)
Theorem C05_strict_side_exact : forall v t e leaf (text : str) s e' errs, tables_of v = Some t ->
  parse_segment t STRICT e leaf text None = Ok s -> validate_errors t e' s = Ok errs ->
  (Forall is_missing_required errs <-> strict_sideb s = true).
Proof. exact shipped_strict_side_exact. Qed.
Print Assumptions C05_strict_side_exact.

(* F14: without the first side condition the statement is false - v2.5 'QPD|a||q||beyond' is accepted
   under STRICT and draws "Invalid children detected for <Segment QPD>: ['QPD_5']" (model and hl7apy) *)
Theorem C05_strict_enforces_refuted :
  ~ (forall v t e leaf (text : str) s e' errs, tables_of v = Some t ->
       parse_segment t STRICT e leaf text None = Ok s -> validate_errors t e' s = Ok errs ->
       Forall is_missing_required errs).
Proof. exact (strict_refutation "QPD|a||q||beyond" (proj1 strict_witnesses)). Qed.
Print Assumptions C05_strict_enforces_refuted.

(* ... nor the second: 'Z0X|a' is accepted under STRICT and draws "Invalid element found: <Field Z0X_1
   (None) of type varies>" (model and hl7apy) although no field is beyond any table *)
Theorem C05_strict_enforces_refuted_zsegment :
  ~ (forall v t e leaf (text : str) s e' errs, tables_of v = Some t ->
       parse_segment t STRICT e leaf text None = Ok s -> seg_is_z s = true ->
       validate_errors t e' s = Ok errs -> Forall is_missing_required errs).
Proof.
  intros H. pose proof (proj1 (proj2 strict_witnesses)) as W. unfold strict_then_validate in W.
  destruct (parse_segment Gen.Tables_v2_5.tables STRICT default_ec (leaf_enc "2.5" STRICT default_ec) "Z0X|a" None) as [s|x] eqn:P; [|discriminate].
  destruct (validate_errors Gen.Tables_v2_5.tables default_ec s) as [errs|x] eqn:V; [|discriminate].
  assert (Z : seg_is_z s = true).
  { assert (Some (seg_is_z s) = Some true); [|congruence]. revert P. vm_compute. intros P. injection P as <-. reflexivity. }
  pose proof (only_missingb_spec _ (H "2.5" _ _ _ _ _ _ _ eq_refl P Z V)) as K. rewrite K in W. discriminate.
Qed.
Print Assumptions C05_strict_enforces_refuted_zsegment.

(* the side condition is satisfiable, and the witnesses fail it *)
Example C05_strict_enforces_examples :
  strict_then_validate Gen.Tables_v2_5.tables "2.5" "QPD|a||q||beyond" = Some (false, false) /\
  strict_then_validate Gen.Tables_v2_5.tables "2.5" "Z0X|a" = Some (false, false) /\
  strict_then_validate Gen.Tables_v2_5.tables "2.5" "QPD|a||q" = Some (true, true) /\
  strict_then_validate Gen.Tables_v2_5.tables "2.5" "ZXX|a|b" = Some (true, true) /\
  strict_then_validate Gen.Tables_v2_5.tables "2.5" "PID|1||a^^^b&c~d|x|n^m" = Some (true, true) /\
  strict_then_validate Gen.Tables_v2_5.tables "2.5" "pid|1||a" = Some (true, true) /\
  strict_then_validate Gen.Tables_v2_5.tables "2.5" "MSH|^~\&|a|b" = Some (true, true) /\
  strict_then_validate Gen.Tables_v2_5.tables "2.5" "OBX|1|CE|id|s|a^b&c~d" = Some (true, true).
Proof. exact strict_witnesses. Qed.
