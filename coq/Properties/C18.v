(* C18 - A message profile replaces the standard structure wherever it speaks.  Parser path, proved
   for every text, table, delimiter set, level and every reference (standard entry or profile):
   the Segment's structure is the one of the reference it was given; every Field the parser creates
   is created with the sub-reference found in ITS parent's reference (never with a reloaded
   standard reference) and takes its datatype and structure from it; restating the standard entry
   changes nothing.  Creation through traversal / add_* helpers is the heap model's (C09-C12), the
   validator's use of the reference is C04's model.

   Message level (second half of this file, Model/MessageProf.v = parse_message with its
   message_profile argument, proofs in Proofs/ProfileMsg.v): without profile the function IS
   Model/Message.v's parse_message; a profile lacking the structure (the empty profile included) gives
   MessageProfileNotFound, a legacy entry LegacyMessageProfile (parser and constructor); a restating profile is a no-op; the
   message carries the profile's reference; with find_groups=True every group and every placed
   segment of the result is a declared child of its parent's (profile) reference and was built
   with the declared sub-reference, provided the profile does not use one group name for two
   different references (decidable: profile_groups_ok); with find_groups=False the segments are
   built on the STANDARD tables (C18_flat_..._refuted + the _partial statement that does hold);
   validate() judges against the reference the message carries. *)
From Coq Require Import List Bool NArith ZArith Init.Byte.
From HL7 Require Import Lib.Str Model.Ec Model.Result Model.Header Model.Ref Model.Tree Model.Parser Model.Leaf
     Model.MsgTree Model.Groups Model.Message Model.MessageProf Model.Validate
     Proofs.ProfileFacts Proofs.GroupsFacts Proofs.ProfileMsg Proofs.ProfileMsgWitness Gen.Params.
From HL7 Require Gen.Tables_v2_5.
From HL7 Require Proofs.PiecesFacts Proofs.LineEnds.
Import ListNotations.
Open Scope bs_scope.

Theorem C18_segment_structure_from_reference : forall t name r s,
  valid_z_segment_name name = false ->
  mk_segment t name (Some r) = Ok s -> parse_structure t r = Ok (s_st s).
Proof. exact mk_segment_structure_from_reference. Qed.
Print Assumptions C18_segment_structure_from_reference.

Theorem C18_fields_take_parent_subreference : forall t lvl e leaf text reference s,
  parse_segment t lvl e leaf text reference = Ok s ->
  Forall (field_origin t lvl e leaf (Some (s_st s))) (s_children s).
Proof. exact parse_segment_fields_from_reference. Qed.
Print Assumptions C18_fields_take_parent_subreference.

Theorem C18_field_structure_from_reference : forall t lvl n r f,
  mk_field t lvl (Some n) None (Some r) = Ok f ->
  exists st, parse_structure t r = Ok st /\ f_st f = Some st /\ f_dt f = st_dt (Some st) /\
             f_name f = Some (upper n).
Proof. exact mk_field_structure_from_reference. Qed.
Print Assumptions C18_field_structure_from_reference.

Theorem C18_restating_noop : forall t lvl e leaf text r,
  valid_z_segment_name (seg_name_of text) = false ->
  slookup (upper (seg_name_of text)) (t_segments t) = Some r ->
  parse_segment t lvl e leaf text (Some r) = parse_segment t lvl e leaf text None.
Proof. exact parse_segment_restated. Qed.
Print Assumptions C18_restating_noop.

(* non-vacuity: a profile that retypes PID-8 as NM and forbids PID-2 really changes the tree *)
Definition profile_pid : sref :=
  SSeqIn false [ SByName FIE "PID_1" 0%Z 1%Z;
                 SIn FIE "PID_2" (SLeaf (mk_info (Some (unbs "ST")) (Some (unbs "X")) None (Z.opp 1%Z))) 0%Z 0%Z;
                 SByName FIE "PID_3" 1%Z (Z.opp 1%Z);
                 SIn FIE "PID_4" (SLeaf (mk_info (Some (unbs "NM")) (Some (unbs "Y")) None (Z.opp 1%Z))) 0%Z 1%Z ] None.
Example C18_profile_speaks :
  match parse_segment Gen.Tables_v2_5.tables TOLERANT default_ec (leaf_enc "2.5" TOLERANT default_ec)
                      "PID|1||A|7" (Some profile_pid) with
  | Ok s => map (fun f => option_map BS (f_dt f)) (s_children s)
  | Err _ => []
  end = [Some "SI"; Some "CX"; Some "NM"].
Proof. vm_compute. reflexivity. Qed.


(* ====================================================================================================
   MESSAGE LEVEL.  Vocabulary:
     parse_message_prof_gen lib dflt lvl leafv fg prof text
                         parse_message(text, validation_level=lvl, find_groups=fg, message_profile=prof);
                         lib = load_library, dflt = default version, leafv = the datatype factory's
                         to_er7 (ANY function: the theorems do not depend on it); prof : option profile,
                         a profile = list (structure name * (PRef reference | PLegacy))
     parse_message_prof  the same with the leaf function of Model/Message.v
     new_message_profiled  Message(name, reference=profile)
     declared t pr k n r   the reference pr lists a child of kind k named n whose reference is r
     declared_tree .. pr x   x hangs under a parent whose reference is pr: a group (g, r, st, children) is a
                         declared GRP child with the declared reference r, st is the structure of r and
                         the children hang under r; a segment parsed WITH a reference sr was parsed from
                         a piece of the text with sr = the declared SEG child named like the piece; a
                         segment parsed without reference (the search found it nowhere on the way up): no
                         statement
     profile_groups_ok t fuel r   the group rows below r have upper-case names and one name never stands for
                         two different references (what `parents_refs.index((name, reference))` needs)
   ==================================================================================================== *)

(* (a) no profile (None): the function of Model/Message.v, so C01/C03/C08/C15's message-level theorems are
   theorems about this function *)
Theorem C18_message_no_profile : forall lib dflt lvl fg text,
  parse_message_prof lib dflt lvl fg None text = parse_message lib dflt lvl fg text.
Proof. exact parse_message_prof_none. Qed.
Print Assumptions C18_message_no_profile.

(* (b) a profile without an entry for the structure named in MSH-9 (as written there), or a header without
   structure: MessageProfileNotFound - before anything else is looked at (version included); in particular the
   empty profile *)
Theorem C18_message_profile_not_found : forall lib dflt lvl leafv fg p text e s v,
  get_message_info (lstrip text) = Ok (e, s, v) ->
  match s with Some n => slookup n p | None => None end = None ->
  parse_message_prof_gen lib dflt lvl leafv fg (Some p) text = Err (HL7 EMessageProfileNotFound).
Proof. exact parse_message_prof_not_found. Qed.
Print Assumptions C18_message_profile_not_found.

Theorem C18_message_empty_profile_not_found : forall lib dflt lvl leafv fg text e s v,
  get_message_info (lstrip text) = Ok (e, s, v) ->
  parse_message_prof_gen lib dflt lvl leafv fg (Some []) text = Err (HL7 EMessageProfileNotFound).
Proof. exact parse_message_prof_empty. Qed.
Print Assumptions C18_message_empty_profile_not_found.

Theorem C18_message_legacy_profile : forall lib dflt lvl leafv fg p text e n v,
  get_message_info (lstrip text) = Ok (e, Some n, v) -> slookup n p = Some PLegacy ->
  parse_message_prof_gen lib dflt lvl leafv fg (Some p) text = Err (HL7 ELegacyMessageProfile).
Proof. exact parse_message_prof_legacy. Qed.
Print Assumptions C18_message_legacy_profile.

(* the constructor indexes the profile by the upper-cased name *)
Theorem C18_constructor_profile_not_found : forall lvl t e name p,
  match name with Some n => slookup (upper n) p | None => None end = None ->
  new_message_profiled lvl t e name (Some p) = Err (HL7 EMessageProfileNotFound).
Proof. exact new_message_profiled_not_found. Qed.
Print Assumptions C18_constructor_profile_not_found.

Theorem C18_constructor_legacy_profile : forall lvl t e n p,
  slookup (upper n) p = Some PLegacy ->
  new_message_profiled lvl t e (Some n) (Some p) = Err (HL7 ELegacyMessageProfile).
Proof. exact new_message_profiled_legacy. Qed.
Print Assumptions C18_constructor_legacy_profile.

(* (c) a profile whose entry for the message's structure is the reference the tables hold for it changes
   nothing: same outcome, same tree.  Premise on the tables: the structure accepts the MSH segment the
   constructor attaches (every shipped structure lists MSH: C18_restating_premise_v2_5 below). *)
Theorem C18_message_restating_noop : forall lib dflt lvl leafv fg p text e n v r,
  get_message_info (lstrip text) = Ok (e, Some n, v) ->
  slookup n p = Some (PRef r) ->
  (forall t, lib (match v with Some v' => v' | None => dflt end) = Some t ->
     slookup (upper n) (t_messages t) = Some r /\
     (forall st, parse_structure t r = Ok st -> msh_acceptance t lvl (upper n) st = Ok tt)) ->
  parse_message_prof_gen lib dflt lvl leafv fg (Some p) text = parse_message_prof_gen lib dflt lvl leafv fg None text.
Proof. exact parse_message_prof_restated. Qed.
Print Assumptions C18_message_restating_noop.

Example C18_restating_premise_v2_5 :
  forallb (fun p : str * sref =>
             match parse_structure Gen.Tables_v2_5.tables (snd p) with
             | Ok st => is_ok (msh_acceptance Gen.Tables_v2_5.tables STRICT (fst p) st) &&
                        is_ok (msh_acceptance Gen.Tables_v2_5.tables TOLERANT (fst p) st)
             | Err _ => true
             end) (t_messages Gen.Tables_v2_5.tables) = true.
Proof. exact restating_premise_v2_5. Qed.

(* the message carries the profile's reference (name upper-cased, structure = the structure of the profile's
   entry) and its children are exactly what parse_segments returned for that reference (find_groups=True, with
   the `except AttributeError` fallback) or for no reference at all (find_groups=False) *)
Theorem C18_message_carries_profile_reference : forall lib dflt lvl leafv fg p text e n v r t m,
  get_message_info (lstrip text) = Ok (e, Some n, v) ->
  slookup n p = Some (PRef r) ->
  parse_message_prof_gen lib dflt lvl leafv fg (Some p) text = Ok (t, m) -> m_name m <> None ->
  let leaf := leafv (match v with Some v' => v' | None => dflt end) lvl e in
  lib (match v with Some v' => v' | None => dflt end) = Some t /\
  exists st, parse_structure t r = Ok st /\ m_name m = Some (upper n) /\ m_st m = Some st /\
    (if fg then
       match parse_segments_grouped t lvl e leaf r (lstrip text) with
       | Err (Crash AttributeError) => parse_segments_flat t lvl e leaf (lstrip text)
       | x => x
       end
     else parse_segments_flat t lvl e leaf (lstrip text)) = Ok (m_children m).
Proof. exact parse_message_prof_shape. Qed.
Print Assumptions C18_message_carries_profile_reference.

(* (d) find_groups=True, the forest parse_segments builds for ANY root reference (message profile entry or
   standard structure) *)
Theorem C18_grouped_forest_takes_subreferences : forall t lvl e leaf root text f fuel,
  profile_groups_ok t fuel root = true ->
  parse_segments_grouped_trees t lvl e leaf root text = Ok f ->
  Forall (declared_tree t str seg (take 3) (seg_of_piece t lvl e leaf) root) f.
Proof. exact grouped_nodes_declared. Qed.
Print Assumptions C18_grouped_forest_takes_subreferences.

(* ... and at message level: the children of the parsed message are that forest *)
Theorem C18_grouped_nodes_take_profile_subreference : forall lib dflt lvl leafv p text e n v r t m fuel,
  get_message_info (lstrip text) = Ok (e, Some n, v) ->
  slookup n p = Some (PRef r) ->
  parse_message_prof_gen lib dflt lvl leafv true (Some p) text = Ok (t, m) -> m_name m <> None ->
  profile_groups_ok t fuel r = true ->
  let leaf := leafv (match v with Some v' => v' | None => dflt end) lvl e in
  exists st, parse_structure t r = Ok st /\ m_st m = Some st /\
    ((exists f, parse_segments_grouped_trees t lvl e leaf r (lstrip text) = Ok f /\
                m_children m = map node_of f /\
                Forall (declared_tree t str seg (take 3) (seg_of_piece t lvl e leaf) r) f)
     \/ (parse_segments_grouped t lvl e leaf r (lstrip text) = Err (Crash AttributeError) /\
         parse_segments_flat t lvl e leaf (lstrip text) = Ok (m_children m))).
Proof. exact parse_message_prof_grouped_nodes. Qed.
Print Assumptions C18_grouped_nodes_take_profile_subreference.

(* a segment placed with the sub-reference sr has the structure of sr (then C18_fields_take_parent_subreference
   hands its fields the sub-references of sr, and so on down) *)
Theorem C18_placed_segment_structure_from_profile : forall t lvl e leaf piece sr a,
  seg_of_piece t lvl e leaf piece (Some sr) = Ok a ->
  valid_z_segment_name (seg_name_of (strip piece)) = false ->
  parse_structure t sr = Ok (s_st a).
Proof. exact placed_segment_structure. Qed.
Print Assumptions C18_placed_segment_structure_from_profile.

(* line ends do not influence what the profile gives: LF after every CR leaves the parse with a message
   profile unchanged (parse_segments strips each piece before it takes the segment name; with the name
   taken from the unstripped piece a CR LF message lost its groups AND the profile's references) *)
Theorem C18_crlf_same_profile_parse : forall lib dflt lvl leafv fg p text,
  parse_message_prof_gen lib dflt lvl leafv fg p (Proofs.PiecesFacts.crlf text) =
  parse_message_prof_gen lib dflt lvl leafv fg p text.
Proof. exact Proofs.LineEnds.parse_message_prof_gen_crlf. Qed.
Print Assumptions C18_crlf_same_profile_parse.

(* (d) find_groups=False.  What the property asks - every segment the profile's message reference declares
   carries the declared sub-reference - is FALSE of hl7apy: parse_segments ignores `references` in that mode
   (parser.py:155); witness: an ADT_A01 profile retyping EVN-1, Proofs/ProfileMsgWitness.v *)
Theorem C18_flat_nodes_take_profile_subreference_refuted : ~ flat_nodes_take_profile_subreference.
Proof. exact flat_nodes_refuted. Qed.
Print Assumptions C18_flat_nodes_take_profile_subreference_refuted.

(* what does hold: the children are the flat parse, every segment built WITHOUT reference, i.e. whatever the
   profile is (None included) the children are those of the un-profiled parse *)
Theorem C18_flat_children_standard_partial : forall lib dflt lvl leafv p text t m,
  parse_message_prof_gen lib dflt lvl leafv false p text = Ok (t, m) ->
  exists e s v, get_message_info (lstrip text) = Ok (e, s, v) /\
    parse_segments_flat t lvl e (leafv (match v with Some v' => v' | None => dflt end) lvl e) (lstrip text)
    = Ok (m_children m).
Proof. exact parse_message_prof_flat_children. Qed.
Print Assumptions C18_flat_children_standard_partial.

(* (e) validate(): a message parsed with a profile is judged against the profile's entry - the rows the
   validator walks are those of r, the table entry of the message's name does not occur; a message parsed
   without profile is judged against the reference it carries (the table entry).  The profile reaches the
   validator only through the reference the message carries (v_message_against has no profile argument) and,
   below the root, through the rows of that reference. *)
Theorem C18_validate_judges_against_profile : forall lib dflt lvl leafv fg p text e n v r t m e',
  get_message_info (lstrip text) = Ok (e, Some n, v) ->
  slookup n p = Some (PRef r) ->
  parse_message_prof_gen lib dflt lvl leafv fg (Some p) text = Ok (t, m) -> m_name m <> None ->
  Validate.valid_z_message_name (upper n) = false ->
  validate_message_log t lvl e' m = v_message_against lvl t e' r m.
Proof. exact validate_profiled. Qed.
Print Assumptions C18_validate_judges_against_profile.

Theorem C18_validate_judges_against_carried_reference : forall lvl t e' m n st r,
  m_name m = Some n -> m_st m = Some st -> st_reference st = r ->
  Validate.valid_z_message_name n = false ->
  validate_message_log t lvl e' m = v_message_against lvl t e' r m.
Proof. exact validate_unprofiled. Qed.
Print Assumptions C18_validate_judges_against_carried_reference.

(* non-vacuity (v2.5, ADT_A01 profile retyping EVN-1 and, inside the inline repeating PROCEDURE group, PR1-1):
   with find_groups=True the profile speaks at both depths and in both group instances; without profile the
   standard datatypes; with find_groups=False the standard datatypes DESPITE the profile *)
Example C18_message_profile_speaks :
  first_field_dts "EVN" (w_result true) = [Some "NM"] /\
  first_field_dts "PR1" (w_result true) = [Some "ST"; Some "ST"] /\
  match w_result true with Ok (_, m) => BS (dump_message m) | Err _ => "" end
  = "ADT_A01:MSH EVN PID PV1 (ADT_A01_PROCEDURE PR1) (ADT_A01_PROCEDURE PR1)".
Proof. exact profile_speaks_grouped. Qed.
Example C18_message_standard_datatypes :
  first_field_dts "EVN" (parse_message_prof w_lib "2.5" TOLERANT true None w_text) = [Some "ID"] /\
  first_field_dts "PR1" (parse_message_prof w_lib "2.5" TOLERANT true None w_text) = [Some "SI"; Some "SI"].
Proof. exact standard_datatypes. Qed.
Example C18_message_profile_silent_flat :
  first_field_dts "EVN" (w_result false) = [Some "ID"] /\
  first_field_dts "PR1" (w_result false) = [Some "SI"; Some "SI"].
Proof. exact profile_silent_flat. Qed.
Example C18_witness_profile_groups_ok : profile_groups_ok w_tables 12 w_root = true.
Proof. exact w_groups_ok. Qed.
