(* C18 - A message profile replaces the standard structure wherever it speaks.  Parser path, proved
   for every text, table, delimiter set, level and every reference (standard entry or profile):
   the Segment's structure is the one of the reference it was given; every Field the parser creates
   is created with the sub-reference found in ITS parent's reference (never with a reloaded
   standard reference) and takes its datatype and structure from it; restating the standard entry
   changes nothing.  Creation through traversal / add_* helpers is the heap model's (C09-C12), the
   validator's use of the reference is C04's model; MessageProfileNotFound / LegacyMessageProfile
   and the message level are decided by the oracle of harness/c18.py. *)
From Coq Require Import List Bool NArith ZArith Init.Byte.
From HL7 Require Import Lib.Str Model.Ec Model.Result Model.Ref Model.Tree Model.Parser Model.Leaf
     Proofs.ProfileFacts Gen.Params.
From HL7 Require Gen.Tables_v2_5.
Import ListNotations.
Open Scope bs_scope.

Theorem C18_segment_structure_from_reference : forall t name r s,
  valid_z_segment_name name = false ->
  mk_segment t name (Some r) = Ok s -> parse_structure t r = Ok (s_st s).
Proof. exact mk_segment_structure_from_reference. Qed.
Print Assumptions C18_segment_structure_from_reference.

Theorem C18_fields_take_parent_subreference : forall t lvl e leaf text reference s,
  parse_segment t lvl e leaf text reference = Ok s ->
  Forall (field_origin t lvl e leaf (Some (s_st s))) (s_children s).
Proof. exact parse_segment_fields_from_reference. Qed.
Print Assumptions C18_fields_take_parent_subreference.

Theorem C18_field_structure_from_reference : forall t lvl n r f,
  mk_field t lvl (Some n) None (Some r) = Ok f ->
  exists st, parse_structure t r = Ok st /\ f_st f = Some st /\ f_dt f = st_dt (Some st) /\
             f_name f = Some (upper n).
Proof. exact mk_field_structure_from_reference. Qed.
Print Assumptions C18_field_structure_from_reference.

Theorem C18_restating_noop : forall t lvl e leaf text r,
  valid_z_segment_name (seg_name_of text) = false ->
  slookup (upper (seg_name_of text)) (t_segments t) = Some r ->
  parse_segment t lvl e leaf text (Some r) = parse_segment t lvl e leaf text None.
Proof. exact parse_segment_restated. Qed.
Print Assumptions C18_restating_noop.

(* non-vacuity: a profile that retypes PID-8 as NM and forbids PID-2 really changes the tree *)
Definition profile_pid : sref :=
  SSeqIn false [ SByName FIE "PID_1" 0%Z 1%Z;
                 SIn FIE "PID_2" (SLeaf (mk_info (Some (unbs "ST")) (Some (unbs "X")) None (Z.opp 1%Z))) 0%Z 0%Z;
                 SByName FIE "PID_3" 1%Z (Z.opp 1%Z);
                 SIn FIE "PID_4" (SLeaf (mk_info (Some (unbs "NM")) (Some (unbs "Y")) None (Z.opp 1%Z))) 0%Z 1%Z ] None.
Example C18_profile_speaks :
  match parse_segment Gen.Tables_v2_5.tables TOLERANT default_ec (leaf_enc "2.5" TOLERANT default_ec)
                      "PID|1||A|7" (Some profile_pid) with
  | Ok s => map (fun f => option_map BS (f_dt f)) (s_children s)
  | Err _ => []
  end = [Some "SI"; Some "CX"; Some "NM"].
Proof. vm_compute. reflexivity. Qed.
