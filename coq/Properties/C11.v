(* C11 - reading never writes; the first write materialises exactly the path read.

   Model: coq/Model/Heap.v: a chain of attribute reads x.n1.n2...nk evaluates to an ElementProxy;
   every link but the last resolves its proxy to an element, creating it lazily under a TRAVERSAL
   parent (indexed in traversal_indexes, not listed) when neither a child nor a traversal child of
   that name exists; `.value` resolves the last link as well.

   C11_read_pure: such a navigation - by name, long name or positional path, of any length, ending
   normally or raising, with either setting of the exotic flag - changes the visible part (class, name,
   children list, by-name index, structure, datatype, value, segment counters) of NO element that
   was allocated before it; hence the children (abs) and the encoding, with both trailing_children
   settings, of every such element are unchanged (the fix 2354c90 closed F16), however often it is
   repeated (C11_read_repeatable), and the observers len / iteration / to_er7 do not touch the store
   at all (C11_observers_pure).  Together with C10 (the traversal children are never listed).
   The second sentence of the property (the first write creates exactly the elements of the chain) is
   checked by computed instances here (C11_write_materialises_instance) and by the oracle of
   harness/c11.py; a general theorem is not attempted. *)
From Coq Require Import List Bool Arith Lia ZArith NArith Init.Byte.
From HL7 Require Import Lib.Str Model.Ec Model.Result Model.Ref Model.Tree Model.Leaf Model.Heap Model.HeapSpec Gen.Params.
From HL7 Require Import Proofs.HeapFacts Proofs.HeapInv Proofs.HeapAtomic Proofs.HeapRead.
From HL7 Require Gen.Tables_v2_5.
Import ListNotations.
Open Scope bs_scope.

Theorem C11_read_pure :
  forall (t : tables) (e : ec) (le : level -> option str -> str -> result str) (x : bool)
         (s : store) (y : nat) (names : list str),
    Inv s ->
    let s' := fst (read_value t e le x y names s) in
    vis_below s s' /\
    (forall p, p < s_next s -> abs s' p = abs s p) /\
    (forall p b, p < s_next s -> to_er7 t e s' p b = to_er7 t e s p b).
Proof.
  intros t e le x s y names I s'.
  assert (V : vis_below s s') by apply (read_value_quiet t e le x y names s).
  split; [exact V|split].
  - intros p Hp. now apply abs_below.
  - intros p b Hp. now apply to_er7_below.
Qed.
Print Assumptions C11_read_pure.

(* the same for a chain that is only evaluated (x.n1...nk without .value) *)
Theorem C11_navigation_pure :
  forall (t : tables) (e : ec) (le : level -> option str -> str -> result str) (x : bool)
         (s : store) (y : nat) (names : list str),
    Inv s ->
    let s' := fst (read_chain t le x y names s) in
    (forall p, p < s_next s -> abs s' p = abs s p) /\
    (forall p b, p < s_next s -> to_er7 t e s' p b = to_er7 t e s p b).
Proof.
  intros t e le x s y names I s'.
  assert (V : vis_below s s') by apply (read_chain_quiet t le x y names s).
  split; [intros p Hp; now apply abs_below|intros p b Hp; now apply to_er7_below].
Qed.
Print Assumptions C11_navigation_pure.

(* however often it is repeated *)
Fixpoint repeat_read {A} (n : nat) (m : M A) (s : store) : store :=
  match n with O => s | S k => repeat_read k m (fst (m s)) end.

Theorem C11_read_repeatable :
  forall (t : tables) (e : ec) (le : level -> option str -> str -> result str) (x : bool)
         (y : nat) (names : list str) (n : nat) (s : store),
    Inv s ->
    let s' := repeat_read n (read_value t e le x y names) s in
    (forall p, p < s_next s -> abs s' p = abs s p) /\
    (forall p b, p < s_next s -> to_er7 t e s' p b = to_er7 t e s p b).
Proof.
  intros t e le x y names n s I s'.
  assert (V : vis_below s s').
  { unfold s'. clear s' I. revert s. induction n as [|k IH]; intros s; cbn [repeat_read]; [apply vis_below_refl|].
    eapply vis_below_trans; [apply (read_value_quiet t e le x y names s)|apply IH]. }
  split; [intros p Hp; now apply abs_below|intros p b Hp; now apply to_er7_below].
Qed.
Print Assumptions C11_read_repeatable.

(* len, iteration, containment, repr and to_er7 do not touch the store *)
Theorem C11_observers_pure :
  forall (t : tables) (e : ec) (le : level -> option str -> str -> result str) (x : bool) (r : rstate) (h : nat),
    r_store (fst (fst (step t e le x r (OLenList h)))) = r_store r /\
    r_store (fst (fst (step t e le x r (OToEr7 h)))) = r_store r.
Proof.
  intros t e le x r h. unfold step, op_m. split.
  - rewrite mbind_run. unfold lift. destruct (handle r h); reflexivity.
  - rewrite mbind_run. unfold lift. destruct (handle r h); reflexivity.
Qed.
Print Assumptions C11_observers_pure.

(* ---------- computed instances (v2.5 tables) ---------- *)

Definition t25 := Gen.Tables_v2_5.tables.
Definition e25 : ec := mk_ec "|" "^" "~" "\" "&" None.
Definition le25 (l : level) := leaf_enc "2.5" l e25.
Fixpoint run25 (r : rstate) (ops : list op) : rstate :=
  match ops with [] => r | o :: k => run25 (fst (fst (step t25 e25 le25 true r o))) k end.
Definition nm (l : list bs) : list str := map unbs l.
(* number of elements listed below handle 0, three levels deep, and its two encodings *)
Definition listed3 (r : rstate) : nat :=
  let s := r_store r in
  let l1 := n_list (getn s 0) in
  let l2 := flat_map (fun c => n_list (getn s c)) l1 in
  let l3 := flat_map (fun c => n_list (getn s c)) l2 in
  length l1 + length l2 + length l3.
Definition enc2 (r : rstate) : str * str :=
  (to_er7 t25 e25 (r_store r) 0 false, to_er7 t25 e25 (r_store r) 0 true).

(* reading four links deep, by name, long name and positional path, on an open-ended segment too:
   nothing listed, both encodings unchanged (F16's witness ZXX|...|zxx_9 included) *)
Example C11_read_instance :
  let pid := [ONewSeg TOLERANT "PID"; OSetAttr 0 (nm ["pid_5"]) (HText "n")] in
  let reads := [OReadValue 0 (nm ["pid_3"; "cx_4"; "hd_1"]); OReadValue 0 (nm ["patient_identifier_list"; "cx_1"]);
                OReadValue 0 (nm ["pid_3"; "pid_3_4_2"]); OLen 0 (nm ["pid_13"; "xtn_1"]);
                OReadValue 0 (nm ["pid_3"; "cx_4"; "hd_1"])] in
  listed3 (run25 init_rstate (pid ++ reads)) = listed3 (run25 init_rstate pid) /\
  enc2 (run25 init_rstate (pid ++ reads)) = enc2 (run25 init_rstate pid) /\
  let z := [ONewSeg TOLERANT "ZXX"; OSetAttr 0 (nm ["zxx_2"]) (HText "a")] in
  enc2 (run25 init_rstate (z ++ [OReadValue 0 (nm ["zxx_9"])])) = (unbs "ZXX||a", unbs "ZXX||a").
Proof. vm_compute. repeat split. Qed.

(* the first write materialises exactly the chain: seg.pid_3.cx_4.hd_1 = 'v' on an empty segment
   lists one field, one component, one subcomponent - and nothing else; a second write through the
   same chain creates nothing more *)
Example C11_write_materialises_instance :
  let pid := [ONewSeg TOLERANT "PID"; OReadValue 0 (nm ["pid_3"; "cx_4"; "hd_2"]); OReadValue 0 (nm ["pid_5"; "xpn_1"])] in
  let w := OSetAttr 0 (nm ["pid_3"; "cx_4"; "hd_1"]) (HText "v") in
  listed3 (run25 init_rstate pid) = 0 /\
  listed3 (run25 init_rstate (pid ++ [w])) = 3 /\
  enc2 (run25 init_rstate (pid ++ [w])) = (unbs "PID|||^^^v", unbs "PID|||^^^v||||||||||||||||||||||||||||||||||||") /\
  listed3 (run25 init_rstate (pid ++ [w; w])) = 3 /\
  listed3 (run25 init_rstate (pid ++ [w; OSetAttr 0 (nm ["pid_3"; "cx_4"; "hd_2"]) (HText "u")])) = 4 /\
  fst (enc2 (run25 init_rstate (pid ++ [w; OSetAttr 0 (nm ["pid_3"; "cx_4"; "hd_2"]) (HText "u")]))) = unbs "PID|||^^^v&u".
Proof. vm_compute. repeat split. Qed.
