(* C11 - reading never writes; the first write materialises exactly the path read.

   Model: coq/Model/Heap.v: a chain of attribute reads x.n1.n2...nk evaluates to an ElementProxy;
   every link but the last resolves its proxy to an element, creating it lazily under a TRAVERSAL
   parent (indexed in traversal_indexes, not listed) when neither a child nor a traversal child of
   that name exists; `.value` resolves the last link as well.

   C11_read_pure: such a navigation - by name, long name or positional path, of any length, ending
   normally or raising, with either setting of the exotic flag - changes the visible part (class, name,
   children list, by-name index, structure, datatype, value, segment counters) of NO element that
   was allocated before it; hence the children (abs) and the encoding, with both trailing_children
   settings, of every such element are unchanged (the fix 2354c90 closed F16), however often it is
   repeated (C11_read_repeatable), and the observers len / iteration / to_er7 do not touch the store
   at all (C11_observers_pure).  Together with C10 (the traversal children are never listed).

   The second sentence of the property (assigning a value at the end of a chain of missing elements
   creates the elements of the chain) is C11_write_materialises, for the form
       x.n1.n2...nk.value = text            (Model/Heap.v write_value)
   from ANY store s with
     Inv s                        the C10 invariant,
     Tidy s                       (Proofs/HeapChain.v) every element indexed as a traversal child is
                                  still waiting (points at its owner through the traversal parent, has
                                  no parent, lists no children), and children are of a class below
                                  their owner's,
     x allocated and not itself waiting under a traversal parent:
   if the statement ends normally there is a chain l (leaf first, at least one element per name) with
     chain_written: every element of l is a LISTED child of its predecessor (the last one of x), points
                    at it, and is no longer in its traversal index; Inv holds again; elements outside
                    the chain keep class, name, both parents, children and index; the existing chain
                    elements keep their children and gain chain elements only; nothing is renamed;
     leaf_written:  a subcomponent leaf holds the text as its value; a field / component leaf lists
                    exactly one fresh child per component the parser splits the text into.
   C11_write_chain_abs restates the chain through abs.  The instance C11_write_materialises_nonvacuous
   shows all hypotheses hold of a v2.5 PID after a read (part of the chain waiting, part missing) and
   exhibits chain and encoding.
   Side conditions and exceptions, each stated:
     - Tidy cannot be dropped: C11_write_materialises_untidy_refuted (a waiting field that lists a
       component: the write ends normally, the segment still encodes as "PID");
     - `.value = None`: C11_write_none_materialises - ends normally on a subcomponent leaf only, the
       chain is materialised all the same and the leaf holds the empty value; on a field / component
       leaf it raises AFTER the promotion (C11_write_none_raises_after_promotion);
     - exotic = false (no late VARIES naming, no non-idempotent lookup): C11_write_materialises_hl7apy
       transfers the theorem to the model as hl7apy runs whenever both settings agree on the call
       (checked on every history by harness/c11.py);
     - MSH_1 / MSH_2 (own value setters) and Segment.value are outside Model/Heap.v: oracle only.
   The by-name form  x.n1...nk = text  (write_chain, k >= 2) attaches the new child to the element the
   chain n1...n(k-1) leads to and promotes afterwards: C11_assign_materialises - under the same
   hypotheses, whenever the direct path (the last name is taken as a child name of that element:
   write_direct, Proofs/HeapAssign.v) ends normally, the assignment has exactly that outcome, the
   chain is written as above and a fresh child is listed under its leaf.  Not covered by a general
   theorem: a last name that is a positional path through a field (Field.__setattr__'s second
   attempt after ChildNotFound), and right-hand sides other than text (elements, proxies, datatype
   objects); these are covered by the computed instances and by the oracle of harness/c11.py. *)
From Coq Require Import List Bool Arith Lia ZArith NArith Init.Byte.
From HL7 Require Import Lib.Str Model.Ec Model.Result Model.Ref Model.Tree Model.Leaf Model.Heap Model.HeapSpec Gen.Params.
From HL7 Require Import Proofs.HeapFacts Proofs.HeapInv Proofs.HeapOps Proofs.HeapSteps Proofs.HeapStep Proofs.HeapAtomic
                        Proofs.HeapRead Proofs.HeapWrite Proofs.HeapChain Proofs.HeapLeaf Proofs.HeapMaterialise
                        Proofs.HeapAssign.
From HL7 Require Gen.Tables_v2_5.
Import ListNotations.
Open Scope bs_scope.

Theorem C11_read_pure :
  forall (t : tables) (e : ec) (le : level -> option str -> str -> result str) (x : bool)
         (s : store) (y : nat) (names : list str),
    Inv s ->
    let s' := fst (read_value t e le x y names s) in
    vis_below s s' /\
    (forall p, p < s_next s -> abs s' p = abs s p) /\
    (forall p b, p < s_next s -> to_er7 t e s' p b = to_er7 t e s p b).
Proof.
  intros t e le x s y names I s'.
  assert (V : vis_below s s') by apply (read_value_quiet t e le x y names s).
  split; [exact V|split].
  - intros p Hp. now apply abs_below.
  - intros p b Hp. now apply to_er7_below.
Qed.
Print Assumptions C11_read_pure.

(* the same for a chain that is only evaluated (x.n1...nk without .value) *)
Theorem C11_navigation_pure :
  forall (t : tables) (e : ec) (le : level -> option str -> str -> result str) (x : bool)
         (s : store) (y : nat) (names : list str),
    Inv s ->
    let s' := fst (read_chain t le x y names s) in
    (forall p, p < s_next s -> abs s' p = abs s p) /\
    (forall p b, p < s_next s -> to_er7 t e s' p b = to_er7 t e s p b).
Proof.
  intros t e le x s y names I s'.
  assert (V : vis_below s s') by apply (read_chain_quiet t le x y names s).
  split; [intros p Hp; now apply abs_below|intros p b Hp; now apply to_er7_below].
Qed.
Print Assumptions C11_navigation_pure.

(* however often it is repeated *)
Fixpoint repeat_read {A} (n : nat) (m : M A) (s : store) : store :=
  match n with O => s | S k => repeat_read k m (fst (m s)) end.

Theorem C11_read_repeatable :
  forall (t : tables) (e : ec) (le : level -> option str -> str -> result str) (x : bool)
         (y : nat) (names : list str) (n : nat) (s : store),
    Inv s ->
    let s' := repeat_read n (read_value t e le x y names) s in
    (forall p, p < s_next s -> abs s' p = abs s p) /\
    (forall p b, p < s_next s -> to_er7 t e s' p b = to_er7 t e s p b).
Proof.
  intros t e le x y names n s I s'.
  assert (V : vis_below s s').
  { unfold s'. clear s' I. revert s. induction n as [|k IH]; intros s; cbn [repeat_read]; [apply vis_below_refl|].
    eapply vis_below_trans; [apply (read_value_quiet t e le x y names s)|apply IH]. }
  split; [intros p Hp; now apply abs_below|intros p b Hp; now apply to_er7_below].
Qed.
Print Assumptions C11_read_repeatable.

(* len, iteration, containment, repr and to_er7 do not touch the store *)
Theorem C11_observers_pure :
  forall (t : tables) (e : ec) (le : level -> option str -> str -> result str) (x : bool) (r : rstate) (h : nat),
    r_store (fst (fst (step t e le x r (OLenList h)))) = r_store r /\
    r_store (fst (fst (step t e le x r (OToEr7 h)))) = r_store r.
Proof.
  intros t e le x r h. unfold step, op_m. split.
  - rewrite mbind_run. unfold lift. destruct (handle r h); reflexivity.
  - rewrite mbind_run. unfold lift. destruct (handle r h); reflexivity.
Qed.
Print Assumptions C11_observers_pure.

(* ---------- computed instances (v2.5 tables) ---------- *)

Definition t25 := Gen.Tables_v2_5.tables.
Definition e25 : ec := mk_ec "|" "^" "~" "\" "&" None.
Definition le25 (l : level) := leaf_enc "2.5" l e25.
Fixpoint run25 (r : rstate) (ops : list op) : rstate :=
  match ops with [] => r | o :: k => run25 (fst (fst (step t25 e25 le25 true r o))) k end.
Definition nm (l : list bs) : list str := map unbs l.
(* number of elements listed below handle 0, three levels deep, and its two encodings *)
Definition listed3 (r : rstate) : nat :=
  let s := r_store r in
  let l1 := n_list (getn s 0) in
  let l2 := flat_map (fun c => n_list (getn s c)) l1 in
  let l3 := flat_map (fun c => n_list (getn s c)) l2 in
  length l1 + length l2 + length l3.
Definition enc2 (r : rstate) : str * str :=
  (to_er7 t25 e25 (r_store r) 0 false, to_er7 t25 e25 (r_store r) 0 true).

(* reading four links deep, by name, long name and positional path, on an open-ended segment too:
   nothing listed, both encodings unchanged (F16's witness ZXX|...|zxx_9 included) *)
Example C11_read_instance :
  let pid := [ONewSeg TOLERANT "PID"; OSetAttr 0 (nm ["pid_5"]) (HText "n")] in
  let reads := [OReadValue 0 (nm ["pid_3"; "cx_4"; "hd_1"]); OReadValue 0 (nm ["patient_identifier_list"; "cx_1"]);
                OReadValue 0 (nm ["pid_3"; "pid_3_4_2"]); OLen 0 (nm ["pid_13"; "xtn_1"]);
                OReadValue 0 (nm ["pid_3"; "cx_4"; "hd_1"])] in
  listed3 (run25 init_rstate (pid ++ reads)) = listed3 (run25 init_rstate pid) /\
  enc2 (run25 init_rstate (pid ++ reads)) = enc2 (run25 init_rstate pid) /\
  let z := [ONewSeg TOLERANT "ZXX"; OSetAttr 0 (nm ["zxx_2"]) (HText "a")] in
  enc2 (run25 init_rstate (z ++ [OReadValue 0 (nm ["zxx_9"])])) = (unbs "ZXX||a", unbs "ZXX||a").
Proof. vm_compute. repeat split. Qed.

(* the first write materialises exactly the chain: seg.pid_3.cx_4.hd_1 = 'v' on an empty segment
   lists one field, one component, one subcomponent - and nothing else; a second write through the
   same chain creates nothing more *)
Example C11_write_materialises_instance :
  let pid := [ONewSeg TOLERANT "PID"; OReadValue 0 (nm ["pid_3"; "cx_4"; "hd_2"]); OReadValue 0 (nm ["pid_5"; "xpn_1"])] in
  let w := OSetAttr 0 (nm ["pid_3"; "cx_4"; "hd_1"]) (HText "v") in
  listed3 (run25 init_rstate pid) = 0 /\
  listed3 (run25 init_rstate (pid ++ [w])) = 3 /\
  enc2 (run25 init_rstate (pid ++ [w])) = (unbs "PID|||^^^v", unbs "PID|||^^^v||||||||||||||||||||||||||||||||||||") /\
  listed3 (run25 init_rstate (pid ++ [w; w])) = 3 /\
  listed3 (run25 init_rstate (pid ++ [w; OSetAttr 0 (nm ["pid_3"; "cx_4"; "hd_2"]) (HText "u")])) = 4 /\
  fst (enc2 (run25 init_rstate (pid ++ [w; OSetAttr 0 (nm ["pid_3"; "cx_4"; "hd_2"]) (HText "u")]))) = unbs "PID|||^^^v&u".
Proof. vm_compute. repeat split. Qed.

(* ---------- the first write materialises the chain ---------- *)

Theorem C11_write_materialises :
  forall (t : tables) (e : ec) (le : level -> option str -> str -> result str)
         (x : nat) (names : list str) (text : str) (s s' : store),
    Inv s -> Tidy s -> x < s_next s -> n_tparent (getn s x) = None ->
    write_value t e le false x names text s = (s', Ok tt) ->
    exists l, chain_written s s' x names l /\ leaf_written t e le (s_next s) s' (hd x l) text.
Proof. exact write_value_materialises. Qed.
Print Assumptions C11_write_materialises.

(* the model exactly as hl7apy runs *)
Theorem C11_write_materialises_hl7apy :
  forall (t : tables) (e : ec) (le : level -> option str -> str -> result str)
         (x : nat) (names : list str) (text : str) (s s' : store),
    write_value t e le true x names text s = write_value t e le false x names text s ->
    Inv s -> Tidy s -> x < s_next s -> n_tparent (getn s x) = None ->
    write_value t e le true x names text s = (s', Ok tt) ->
    exists l, chain_written s s' x names l /\ leaf_written t e le (s_next s) s' (hd x l) text.
Proof. exact write_value_materialises_hl7apy. Qed.
Print Assumptions C11_write_materialises_hl7apy.

(* through abs: element i of the chain is, under its own name, among the children of element i+1 (x
   after the last); outside the chain the children are as before, and the chain elements that existed
   keep all of theirs *)
Theorem C11_write_chain_abs :
  forall (s s' : store) (x : nat) (names : list str) (l : list nat),
    Inv s -> chain_written s s' x names l ->
    (forall i, i < length l -> In (n_name (getn s' (nth i l x)), nth i l x) (abs s' (nth (S i) l x))) /\
    (forall y, y < s_next s -> ~ In y (l ++ [x]) -> abs s' y = abs s y) /\
    (forall q kc, q < s_next s -> q <> hd x l -> In kc (abs s q) -> In kc (abs s' q)).
Proof. exact write_chain_abs. Qed.
Print Assumptions C11_write_chain_abs.

(* x.n1...nk.value = None *)
Theorem C11_write_none_materialises :
  forall (t : tables) (le : level -> option str -> str -> result str)
         (x : nat) (names : list str) (s s' : store),
    Inv s -> Tidy s -> x < s_next s -> n_tparent (getn s x) = None ->
    write_value_none t le false x names s = (s', Ok tt) ->
    exists l, chain_written s s' x names l /\
              n_cls (getn s' (hd x l)) = CSub /\ n_value (getn s' (hd x l)) = [] /\ n_enc (getn s' (hd x l)) = [].
Proof. exact write_value_none_materialises. Qed.
Print Assumptions C11_write_none_materialises.

(* x.n1...nk = text, k >= 2 *)
Theorem C11_assign_materialises :
  forall (t : tables) (e : ec) (le : level -> option str -> str -> result str)
         (x : nat) (names : list str) (txt : str) (s s' : store),
    Inv s -> Tidy s -> x < s_next s -> n_tparent (getn s x) = None ->
    write_direct t e le x names txt s = (s', Ok tt) ->
    write_chain t e le false x names (VText txt) s = (s', Ok tt) /\
    exists l child, chain_written s s' x (removelast names) l /\
                    In child (n_list (getn s' (hd x l))) /\ s_next s <= child.
Proof. exact assign_materialises_chain. Qed.
Print Assumptions C11_assign_materialises.

(* ---------- non-vacuity: a v2.5 PID on which pid_3.cx_4.hd_2 has been read ---------- *)

Definition pid_read : list op := [ONewSeg TOLERANT "PID"; OReadValue 0 (nm ["pid_3"; "cx_4"; "hd_2"])].
Definition s_read : store := r_store (run_hist t25 e25 le25 false init_rstate pid_read).
Definition hd1 : list str := nm ["pid_3"; "cx_4"; "hd_1"].

Lemma s_read_inv : Inv s_read.
Proof.
  assert (H : RInv (run_hist t25 e25 le25 false init_rstate pid_read)).
  { apply hist_inv; [exact RInv_init|]. vm_compute. repeat split; auto. }
  exact (proj1 H).
Qed.

(* the field and the component are waiting (1, 2), hd_2 is waiting (3), hd_1 is missing: the write
   takes the waiting elements, creates element 4 and lists 1 under the segment, 2 under 1, 4 under 2;
   hd_2 stays where it was *)
Example C11_write_materialises_nonvacuous :
  Inv s_read /\ Tidy s_read /\ 0 < s_next s_read /\ n_tparent (getn s_read 0) = None /\
  write_value t25 e25 le25 true 0 hd1 (unbs "v") s_read = write_value t25 e25 le25 false 0 hd1 (unbs "v") s_read /\
  exists s', write_value t25 e25 le25 false 0 hd1 (unbs "v") s_read = (s', Ok tt) /\
    (exists l, chain_written s_read s' 0 hd1 l /\ leaf_written t25 e25 le25 (s_next s_read) s' (hd 0 l) (unbs "v")) /\
    n_list (getn s_read 0) = [] /\
    (n_list (getn s' 0), n_list (getn s' 1), n_list (getn s' 2), n_value (getn s' 4)) = ([1], [2], [4], unbs "v") /\
    members (n_tidx (getn s' 2)) = [3] /\
    to_er7 t25 e25 s' 0 false = unbs "PID|||^^^v".
Proof.
  assert (I : Inv s_read) by exact s_read_inv.
  assert (T : Tidy s_read) by (apply tidy_b_ok; vm_compute; reflexivity).
  assert (H0 : 0 < s_next s_read) by (apply Nat.ltb_lt; vm_compute; reflexivity).
  assert (Ht : n_tparent (getn s_read 0) = None) by (vm_compute; reflexivity).
  refine (conj I (conj T (conj H0 (conj Ht (conj _ _))))); [vm_compute; reflexivity|].
  exists (fst (write_value t25 e25 le25 false 0 hd1 (unbs "v") s_read)).
  assert (E : write_value t25 e25 le25 false 0 hd1 (unbs "v") s_read =
              (fst (write_value t25 e25 le25 false 0 hd1 (unbs "v") s_read), Ok tt)).
  { assert (Es : snd (write_value t25 e25 le25 false 0 hd1 (unbs "v") s_read) = Ok tt) by (vm_compute; reflexivity).
    rewrite (surjective_pairing (write_value t25 e25 le25 false 0 hd1 (unbs "v") s_read)) at 1. now rewrite Es. }
  split; [exact E|]. split; [exact (C11_write_materialises _ _ _ _ _ _ _ _ I T H0 Ht E)|].
  vm_compute. repeat split.
Qed.

(* the same store, by name: seg.pid_3.cx_4.hd_1 = 'v' *)
Example C11_assign_materialises_nonvacuous :
  write_chain t25 e25 le25 true 0 hd1 (VText (unbs "v")) s_read = write_chain t25 e25 le25 false 0 hd1 (VText (unbs "v")) s_read /\
  exists s', write_direct t25 e25 le25 0 hd1 (unbs "v") s_read = (s', Ok tt) /\
    (write_chain t25 e25 le25 false 0 hd1 (VText (unbs "v")) s_read = (s', Ok tt) /\
     exists l child, chain_written s_read s' 0 (removelast hd1) l /\
                     In child (n_list (getn s' (hd 0 l))) /\ s_next s_read <= child) /\
    (n_list (getn s' 0), n_list (getn s' 1), n_list (getn s' 2), n_value (getn s' 4)) = ([1], [2], [4], unbs "v") /\
    to_er7 t25 e25 s' 0 false = unbs "PID|||^^^v".
Proof.
  split; [vm_compute; reflexivity|].
  exists (fst (write_direct t25 e25 le25 0 hd1 (unbs "v") s_read)).
  assert (E : write_direct t25 e25 le25 0 hd1 (unbs "v") s_read =
              (fst (write_direct t25 e25 le25 0 hd1 (unbs "v") s_read), Ok tt)).
  { assert (Es : snd (write_direct t25 e25 le25 0 hd1 (unbs "v") s_read) = Ok tt) by (vm_compute; reflexivity).
    rewrite (surjective_pairing (write_direct t25 e25 le25 0 hd1 (unbs "v") s_read)) at 1. now rewrite Es. }
  split; [exact E|]. split.
  - apply C11_assign_materialises; [exact s_read_inv|apply tidy_b_ok; vm_compute; reflexivity|
                                   apply Nat.ltb_lt; vm_compute; reflexivity|vm_compute; reflexivity|exact E].
  - vm_compute. repeat split.
Qed.

(* ---------- Tidy cannot be dropped ---------- *)

(* a waiting field (1, indexed as traversal child of the segment) that lists a component (2) *)
Definition s_limbo : store :=
  let sA := r_store (run_hist t25 e25 le25 false init_rstate [ONewSeg TOLERANT "PID"]) in
  let sB := fst (create_element t25 le25 false 0 (unbs "PID_3") true None sA) in
  fst (create_element t25 le25 false 1 (unbs "CX_4") false None sB).

Lemma s_limbo_inv : Inv s_limbo.
Proof.
  unfold s_limbo. cbv zeta.
  set (sA := r_store (run_hist t25 e25 le25 false init_rstate [ONewSeg TOLERANT "PID"])).
  assert (IA : Inv sA).
  { assert (H : RInv (run_hist t25 e25 le25 false init_rstate [ONewSeg TOLERANT "PID"])).
    { apply hist_inv; [exact RInv_init|]. vm_compute. repeat split; auto. }
    exact (proj1 H). }
  set (sB := fst (create_element t25 le25 false 0 (unbs "PID_3") true None sA)).
  assert (IB : Inv sB).
  { assert (H0 : 0 < s_next sA) by (apply Nat.ltb_lt; vm_compute; reflexivity).
    pose proof (create_element_spec' t25 le25 Unone Unone 0 (unbs "PID_3") true None sA (conj (K_none sA IA) H0)) as H.
    unfold sB. destruct (create_element t25 le25 false 0 (unbs "PID_3") true None sA) as [s1 [c|y]]; cbn [fst].
    - destruct H as (H & _). now apply K_Inv in H.
    - now apply K_Inv in H. }
  assert (H1 : 1 < s_next sB) by (apply Nat.ltb_lt; vm_compute; reflexivity).
  pose proof (create_element_spec' t25 le25 Unone Unone 1 (unbs "CX_4") false None sB (conj (K_none sB IB) H1)) as H.
  destruct (create_element t25 le25 false 1 (unbs "CX_4") false None sB) as [s1 [c|y]]; cbn [fst].
  - destruct H as (H & _). now apply K_Inv in H.
  - now apply K_Inv in H.
Qed.

Theorem C11_write_materialises_untidy_refuted :
  Inv s_limbo /\ 0 < s_next s_limbo /\ n_tparent (getn s_limbo 0) = None /\ ~ Tidy s_limbo /\
  exists s', write_value t25 e25 le25 false 0 (nm ["pid_3"; "cx_4"]) (unbs "v") s_limbo = (s', Ok tt) /\
             write_value t25 e25 le25 true 0 (nm ["pid_3"; "cx_4"]) (unbs "v") s_limbo =
             write_value t25 e25 le25 false 0 (nm ["pid_3"; "cx_4"]) (unbs "v") s_limbo /\
             to_er7 t25 e25 s' 2 false = unbs "v" /\ to_er7 t25 e25 s' 0 false = unbs "PID" /\
             ~ exists l, chain_written s_limbo s' 0 (nm ["pid_3"; "cx_4"]) l.
Proof.
  split; [exact s_limbo_inv|]. split; [apply Nat.ltb_lt; vm_compute; reflexivity|]. split; [vm_compute; reflexivity|].
  split.
  - intros T. assert (H0 : 0 < s_next s_limbo) by (apply Nat.ltb_lt; vm_compute; reflexivity).
    assert (Hm : In 1 (members (n_tidx (getn s_limbo 0)))) by (vm_compute; auto).
    destruct (T_trav _ T 0 1 H0 Hm) as (_ & _ & E). vm_compute in E. discriminate.
  - exists (fst (write_value t25 e25 le25 false 0 (nm ["pid_3"; "cx_4"]) (unbs "v") s_limbo)).
    split; [|split; [vm_compute; reflexivity|split; [vm_compute; reflexivity|split; [vm_compute; reflexivity|]]]].
    + assert (Es : snd (write_value t25 e25 le25 false 0 (nm ["pid_3"; "cx_4"]) (unbs "v") s_limbo) = Ok tt)
        by (vm_compute; reflexivity).
      rewrite (surjective_pairing (write_value t25 e25 le25 false 0 (nm ["pid_3"; "cx_4"]) (unbs "v") s_limbo)) at 1.
      now rewrite Es.
    + intros [l W]. pose proof (w_length _ _ _ _ _ W) as Len.
      assert (Hl : l <> []) by (intros ->; cbn in Len; lia).
      destruct (chain_listed_root _ _ _ (w_chain _ _ _ _ _ W) Hl) as (c & _ & (Hc & _)).
      vm_compute in Hc. exact Hc.
Qed.
Print Assumptions C11_write_materialises_untidy_refuted.

(* ---------- .value = None on a field / component leaf raises after the promotion ---------- *)

Example C11_write_none_raises_after_promotion :
  let r := write_value_none t25 le25 true 0 (nm ["pid_3"; "cx_4"]) s_read in
  snd r = Err (Crash AttributeError) /\
  to_er7 t25 e25 s_read 0 false = unbs "PID" /\ to_er7 t25 e25 (fst r) 0 false = unbs "PID|||^^^" /\
  (n_list (getn (fst r) 0), n_list (getn (fst r) 1)) = ([1], [2]) /\
  let r' := write_value_none t25 le25 true 0 hd1 s_read in
  snd r' = Ok tt /\ (n_list (getn (fst r') 0), n_list (getn (fst r') 1), n_list (getn (fst r') 2)) = ([1], [2], [4]) /\
  n_value (getn (fst r') 4) = [].
Proof. vm_compute. repeat split. Qed.
