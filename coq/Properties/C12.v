(* C12 - a rejected operation leaves its target unchanged.

   Model: coq/Model/Heap.v, whose monad keeps the effects performed before a raise (as Python does).
   "Unchanged" = the visible part of every node (class, name, children list, by-name index,
   structure, datatype, value, segment counters: Proofs/HeapAtomic.v `vis`) is the same; the encoding
   of every element is a function of it (C12_encoding_of_visible).

   The full statement (every raising step leaves vis unchanged) is false of the faithful model and of
   hl7apy: C12_atomic_refuted_* (F9: replacement by an element of the other validation level,
   refused datatype change, value assignment through a lazily created element, partly acceptable
   value, a datatype object of another base datatype assigned as value).  C12_atomic_partial_* prove it for the rejection causes
   where it holds: a refused add (wrong class or name, foreign child, cardinality, level, version),
   an assignment whose child name does not resolve or whose value the parser refuses, an assignment
   refused at acceptance time when it would append, an element of another name, a deletion of an
   absent child. *)
From Coq Require Import List Bool Arith Lia ZArith NArith Init.Byte.
From HL7 Require Import Lib.Str Model.Ec Model.Result Model.Ref Model.Tree Model.Leaf Model.Heap Gen.Params.
From HL7 Require Import Proofs.HeapFacts Proofs.HeapAtomic.
From Coq Require Import Lia.
From HL7 Require Gen.Tables_v2_5.
Import ListNotations.
Open Scope bs_scope.

(* the encoding (both trailing_children settings) of every element depends on the visible part only *)
Theorem C12_encoding_of_visible : forall (t : tables) (e : ec) (s s' : store),
  vis_eq s s' -> forall x b, to_er7 t e s' x b = to_er7 t e s x b.
Proof. exact to_er7_vis. Qed.
Print Assumptions C12_encoding_of_visible.

(* add: whatever the cause of the refusal (ValueError from int(name[4:]) excepted, which hl7apy can
   only reach with a field name that does not end in a number), nothing visible changed; only the
   refused child's back-pointers may now point at the element that refused it *)
Theorem C12_atomic_partial_add : forall (t : tables) (p c : nat) (s s' : store) (x : exn),
  add t p c s = (s', Err x) -> x <> PyValueError ->
  (s' = s \/ s' = pointed s c p) /\ vis_eq s s'.
Proof. intros t p c s s' x H N. split; [eapply add_rejected; eauto|eapply add_rejected_vis; eauto]. Qed.
Print Assumptions C12_atomic_partial_add.

(* assignment of a text: an unknown or foreign child name is refused with the store untouched *)
Theorem C12_atomic_partial_assign_name :
  forall (t : tables) (e : ec) le (x : bool) (p : nat) (name txt : str) (i : Z) (s : store) (ex : exn),
  fcr t (getn s p) (upper name) = Err ex ->
  set_child t e le x p name (VText txt) i s = (s, Err ex).
Proof. intros. now apply set_child_rejected_name. Qed.
Print Assumptions C12_atomic_partial_assign_name.

(* assignment of a text the child parser refuses (too long, too many components under STRICT, a
   datatype the version does not know ...): refused with the store untouched, replacement included *)
Theorem C12_atomic_partial_assign_value :
  forall (t : tables) (e : ec) le (x : bool) (p : nat) (name txt : str) (i : Z) (s s1 : store) cn cr (ex : exn),
  fcr t (getn s p) (upper name) = Ok (cn, cr) ->
  parse_child t e le p cn cr txt s = (s1, Err ex) ->
  set_child t e le x p name (VText txt) i s = (s, Err ex).
Proof. intros. eapply set_child_rejected_value; eauto. Qed.
Print Assumptions C12_atomic_partial_assign_value.

(* assignment of a text that would APPEND (the addressed repetition does not exist) to an element that
   is not itself waiting under a traversal parent: whatever refuses it after parsing - cardinality
   under STRICT, class, level, version - every element allocated before the call is exactly as it was
   (the parsed copy that was refused is garbage above the old allocation pointer) *)
Theorem C12_atomic_partial_assign_append :
  forall (t : tables) (e : ec) le (x : bool) (p : nat) (name txt : str) (i : Z) (s s' : store) (ex : exn) cn cr,
  set_child t e le x p name (VText txt) i s = (s', Err ex) ->
  ex <> PyValueError ->
  p < s_next s ->
  n_tparent (getn s p) = None ->
  fcr t (getn s p) (upper name) = Ok (cn, cr) ->
  (forall cn' cr', fcr t (getn s p) (upper cn) = Ok (cn', cr') -> finder (getn s p) (Some cn') i = None) ->
  forall q, q < s_next s -> getn s' q = getn s q.
Proof.
  intros t e le x p name txt i s s' ex cn cr H Nx Hp Ht Hf Hfind q Hq.
  destruct (set_child_rejected_append t e le x p name txt i s s' ex cn cr H Nx Hp Ht Hf Hfind)
    as [[_ S]|(c & Hc & s1 & [_ S1] & ->)]; [now apply S|].
  unfold pointed. rewrite getn_setn_other by lia. now apply S1.
Qed.
Print Assumptions C12_atomic_partial_assign_append.

(* assignment of an element that carries another name (seg.pid_3 = Field('PID_5')) *)
Theorem C12_atomic_partial_assign_wrong_element :
  forall (t : tables) (e : ec) le (x : bool) (p : nat) (name : str) (c : nat) (i : Z) (s : store) cn cr,
  fcr t (getn s p) (upper name) = Ok (cn, cr) ->
  opt_eqb (n_name (getn s c)) (Some cn) = false ->
  set_child t e le x p name (VElem c) i s = (s, Err (HL7 EChildNotValid)).
Proof. intros. eapply set_child_rejected_element; eauto. Qed.
Print Assumptions C12_atomic_partial_assign_wrong_element.

(* deletion of an absent child *)
Theorem C12_atomic_partial_delete : forall (t : tables) (x : nat) (name : str) (s s' : store) (ex : exn),
  del_child t x name s = (s', Err ex) -> ex <> PyValueError -> s' = s.
Proof. intros. eapply del_child_rejected; eauto. Qed.
Print Assumptions C12_atomic_partial_delete.

(* ---------- the full statement is false: F9 in the model (v2.5 tables) ---------- *)

Definition t25 := Gen.Tables_v2_5.tables.
Definition e25 : ec := mk_ec "|" "^" "~" "\" "&" None.
Definition le25 (l : level) := leaf_enc "2.5" l e25.
Fixpoint run25 (r : rstate) (ops : list op) : rstate :=
  match ops with [] => r | o :: k => run25 (fst (fst (step t25 e25 le25 true r o))) k end.
Definition nm (x : bs) : list str := [unbs x].
(* (encoding of handle 0 before, outcome code, encoding after) *)
Definition before_after (pre : list op) (o : op) : str * nat * str :=
  let r := run25 init_rstate pre in
  let r' := step t25 e25 le25 true r o in
  (to_er7 t25 e25 (r_store r) 0 false, snd (fst r'), to_er7 t25 e25 (r_store (fst (fst r'))) 0 false).

(* F9a  seg.pid_3 = <Field of the other validation level>: OperationNotAllowed, and PID_3 is gone *)
Theorem C12_atomic_refuted_replace_other_level :
  before_after [ONewSeg TOLERANT "PID"; OSetAttr 0 (nm "pid_3") (HText "A"); ONewField STRICT (Some (unbs "PID_3")) None]
               (OSetAttr 0 (nm "pid_3") (HElem 1))
  = (unbs "PID|||A", 7, unbs "PID").
Proof. vm_compute. reflexivity. Qed.
Print Assumptions C12_atomic_refuted_replace_other_level.

(* F9b  field.datatype = 'CE' on a populated CX field: OperationNotAllowed, the structure is swapped *)
Theorem C12_atomic_refuted_datatype_change :
  before_after [ONewSeg TOLERANT "PID"; OSetAttr 0 (nm "pid_3") (HText "A^B"); OGrab 0 (nm "pid_3") 0]
               (OSetDatatype 1 (Some (unbs "CE")))
  = (unbs "PID|||A^B", 7, unbs "PID|||").
Proof. vm_compute. reflexivity. Qed.
Print Assumptions C12_atomic_refuted_datatype_change.

(* F9c  seg.pid_5.value = <too long> (STRICT): MaxLengthReached, an empty PID_5 is now attached *)
Theorem C12_atomic_refuted_value_promotes :
  before_after [ONewSeg STRICT "PID"] (OSetValueChain 0 (nm "pid_5") (repeat "X"%byte 300))
  = (unbs "PID", 8, unbs "PID|||||").
Proof. vm_compute. reflexivity. Qed.
Print Assumptions C12_atomic_refuted_value_promotes.

(* F9d  seg.pid_1.value = '2^3' (STRICT): MaxChildLimitReached, the acceptable prefix is swapped in *)
Theorem C12_atomic_refuted_partial_value :
  before_after [ONewSeg STRICT "PID"; OSetAttr 0 (nm "pid_1") (HText "1")] (OSetValueChain 0 (nm "pid_1") "2^3")
  = (unbs "PID|1", 6, unbs "PID|2").
Proof. vm_compute. reflexivity. Qed.
Print Assumptions C12_atomic_refuted_partial_value.

(* F9e  field.value = NM(2) on the populated SI field PID_1: ChildNotValid, and the old value is gone
   (children[0] is removed by replace_child before the new component is accepted) *)
Theorem C12_atomic_refuted_value_datatype_object :
  before_after [ONewSeg TOLERANT "PID"; OSetAttr 0 (nm "pid_1") (HText "1"); OGrabList 0 0] (OSetValueDt 1 "NM" "2")
  = (unbs "PID|1", 5, unbs "PID|").
Proof. vm_compute. reflexivity. Qed.
Print Assumptions C12_atomic_refuted_value_datatype_object.

(* F20 (fixed by b690ba1): seg.pid_3 = ST('z') on a CX field is still refused (ChildNotValid) but the
   element it was building is detached: the target is unchanged *)
Example C12_datatype_object_instance :
  before_after [ONewSeg TOLERANT "PID"; OSetAttr 0 (nm "pid_3") (HText "A")] (OSetAttr 0 (nm "pid_3") (HDt "ST" "z"))
  = (unbs "PID|||A", 5, unbs "PID|||A").
Proof. vm_compute. reflexivity. Qed.

(* the partial theorems are not vacuous: a rejected add (second PID_1 under STRICT) and a rejected
   assignment (value too long) that leave the encoding as it was *)
Example C12_partial_instances :
  before_after [ONewSeg STRICT "PID"; OSetAttr 0 (nm "pid_1") (HText "1"); ONewField STRICT (Some (unbs "PID_1")) None]
               (OAdd 0 1) = (unbs "PID|1", 6, unbs "PID|1") /\
  before_after [ONewSeg STRICT "PID"; OSetAttr 0 (nm "pid_5") (HText "a")]
               (OSetAttr 0 (nm "pid_5") (HText (repeat "X"%byte 300))) = (unbs "PID|||||a", 8, unbs "PID|||||a").
Proof. split; vm_compute; reflexivity. Qed.
