(* C13 - base datatype values: acceptance matches HL7 syntax and text is preserved.
   Theorems only; proofs live in Proofs/DatatypesFacts.v (the regex matcher, strptime on exact-length
   input), Proofs/DatatypesDate.v (DT, TM, DTM), Proofs/DatatypesNum.v (NM, SI, the factory) and
   Proofs/DatatypesNumValue.v (the number an accepted NM / SI value denotes).
   impl_X = what hl7apy computes (Model/Datatypes.v), spec_X = the HL7 grammar; the offset grid, the
   allowed formats and the maximum lengths are the generated Gen/Params.v.
   Model domain: ASCII strings (NM: exponents of at most 18 digits). *)
From Coq Require Import List Bool NArith ZArith Init.Byte.
From HL7 Require Import Lib.Str Model.Ec Model.Result Model.Escape Model.Datatypes
  Proofs.EscapeFacts Proofs.DatatypesFacts Proofs.DatatypesDate Proofs.DatatypesNum Proofs.DatatypesNumValue
  Gen.Params.
Import ListNotations.
Open Scope bs_scope.

(* ---- obligations on the generated parameters (finite, decided by the kernel) ---- *)

Definition Nlist_eqb (a b : list N) : bool := leqb N.eqb a b.
Definition upto (n : nat) : list N := map N.of_nat (seq 0 n).

(* the offsets utils._split_offset recognises are the documented grid +0000..+1459, -0000..-1259 *)
Theorem C13_params_offset_grid :
  offset_grid_is_product && Nlist_eqb offset_plus_hours (upto 15) && Nlist_eqb offset_plus_minutes (upto 60) &&
  Nlist_eqb offset_minus_hours (upto 13) && Nlist_eqb offset_minus_minutes (upto 60) = true.
Proof. vm_compute. reflexivity. Qed.

(* every format utils.py can produce is an allowed out_format of the class *)
Theorem C13_params_formats :
  forallb (fun f => smem (fmt_str f) dt_formats) [[TY]; [TY; Tm]; [TY; Tm; Td]] &&
  forallb (fun f => smem (fmt_str f) tm_formats) [[TH]; [TH; TMi]; [TH; TMi; TS]; [TH; TMi; TS; Tdot; Tf]] &&
  forallb (fun f => smem (fmt_str f) dtm_formats)
    ([[TY]; [TY; Tm]; [TY; Tm; Td]] ++
     map (app [TY; Tm; Td]) [[TH]; [TH; TMi]; [TH; TMi; TS]; [TH; TMi; TS; Tdot; Tf]]) = true.
Proof. vm_compute. reflexivity. Qed.

(* maximum lengths: NM 16 and SI 4 in every version, none for DT / TM / DTM *)
Definition row_ok (r : str * dtkind * option Z) : bool :=
  match r with
  | (_, KNM, ml) => match ml with Some 16%Z => true | _ => false end
  | (_, KSI, ml) => match ml with Some 4%Z => true | _ => false end
  | (_, KDT, ml) | (_, KTM, ml) | (_, KDTM, ml) => match ml with None => true | _ => false end
  | _ => true
  end.
Theorem C13_params_maxlen :
  forallb (fun vr : str * list (str * dtkind * option Z) => forallb row_ok (snd vr)) base_datatype_table = true.
Proof. vm_compute. reflexivity. Qed.

(* every version has the five datatypes it should (DT NM SI everywhere, TM from 2.2, DTM from 2.5) and an ST
   class of a known escape family for the TOLERANT fall-back *)
Theorem C13_params_st : table_has_st = true.
Proof. vm_compute. reflexivity. Qed.

(* ---- DT ---- *)

Definition C13_accept_DT_statement : Prop := forall s, accepts (impl_DT s) = spec_DT s.

(* refuted on the faithful model (finding F10): strptime's blank-padded day *)
Theorem C13_accept_DT_refuted : ~ C13_accept_DT_statement.
Proof. intros H. specialize (H ("202011 1" : bs)). vm_compute in H. discriminate. Qed.
Print Assumptions C13_accept_DT_refuted.

(* what does hold, for every string: the accepted set is exactly the HL7 dates plus YYYYMM-blank-D *)
Theorem C13_accept_DT_partial : forall s, accepts (impl_DT s) = spec_DT s || dt_space_day s.
Proof. exact accept_DT_exact. Qed.
Print Assumptions C13_accept_DT_partial.

(* every accepted HL7 date, years 0001-9999: the year is printed with four digits *)
Theorem C13_roundtrip_DT : forall s e,
  impl_DT s = Ok e -> spec_DT s = true -> e = s.
Proof. exact roundtrip_DT. Qed.
Print Assumptions C13_roundtrip_DT.

(* the defect family re-encodes with a zero-padded day *)
Theorem C13_DT_defect_reencodes : forall s e,
  impl_DT s = Ok e -> dt_space_day s = true -> e = fix_space_day s.
Proof. exact space_day_reencodes. Qed.
Print Assumptions C13_DT_defect_reencodes.

(* utils.check_date is the acceptance test *)
Theorem C13_check_date : forall s, check_date s = Ok (accepts (impl_DT s)).
Proof.
  intros s. unfold check_date, check_of, impl_DT.
  destruct (get_date_info s) as [[v f]|x] eqn:E.
  - cbn [bind fst snd]. unfold get_date_info, date_format in E.
    assert (Hf : dt_ctor dt_formats f = Ok tt).
    { destruct (length s =? 4); [|destruct (length s =? 6); [|destruct (length s =? 8); [|discriminate]]];
        cbn [bind] in E; destruct (strptime s _); try discriminate; injection E as _ <-; reflexivity. }
    now rewrite Hf.
  - assert (impl_DT s = Err x) as Hx by (unfold impl_DT; now rewrite E).
    rewrite (DT_only_valueerror _ _ Hx). reflexivity.
Qed.
Print Assumptions C13_params_st.
Print Assumptions C13_params_maxlen.
Print Assumptions C13_params_formats.
Print Assumptions C13_params_offset_grid.
Print Assumptions C13_check_date.

(* ---- TM ---- *)

Definition C13_accept_TM_statement : Prop := forall s, accepts (impl_TM s) = spec_TM s.

(* refuted (finding F10): str.replace removes every copy of the offset *)
Theorem C13_accept_TM_refuted : ~ C13_accept_TM_statement.
Proof. intros H. specialize (H ("12+0100+0100" : bs)). vm_compute in H. discriminate. Qed.
Print Assumptions C13_accept_TM_refuted.

(* exactly: HH[MM[SS[.S{1,4}]]][+/-ZZZZ] on the offset grid, plus the values in which the final offset
   occurs more than once and a well-formed time is left when every copy is removed *)
Theorem C13_accept_TM_partial : forall s, accepts (impl_TM s) = spec_TM s || offset_defect spec_time s.
Proof. exact accept_TM_exact. Qed.
Print Assumptions C13_accept_TM_partial.

(* fraction digits and offset are preserved *)
Theorem C13_roundtrip_TM : forall s e, impl_TM s = Ok e -> spec_TM s = true -> e = s.
Proof. exact roundtrip_TM. Qed.
Print Assumptions C13_roundtrip_TM.

Theorem C13_TM_defect_reencodes : forall s e,
  impl_TM s = Ok e -> offset_defect spec_time s = true -> e = dedup_offset s.
Proof. exact TM_defect_reencodes. Qed.
Print Assumptions C13_TM_defect_reencodes.

(* the regex of utils._split_offset recognises exactly the grid of Gen/Params.v *)
Theorem C13_offset_regex_is_grid : forall o, off_match o = spec_offset o.
Proof. exact off_match_spec. Qed.
Print Assumptions C13_offset_regex_is_grid.

(* ---- DTM ---- *)

Definition C13_accept_DTM_statement : Prop := forall s, accepts (impl_DTM s) = spec_DTM s.

(* refuted (finding F10): both defects of DT and TM are inherited *)
Theorem C13_accept_DTM_refuted : ~ C13_accept_DTM_statement.
Proof. intros H. specialize (H ("202011 1" : bs)). vm_compute in H. discriminate. Qed.
Print Assumptions C13_accept_DTM_refuted.

(* exactly: YYYY[MM[DD[HH[MM[SS[.S{1,4}]]]]]][+/-ZZZZ], plus the same with a blank-padded day, plus the
   values in which the final offset occurs more than once and an accepted body is left when every copy is
   removed *)
Theorem C13_accept_DTM_partial : forall s,
  accepts (impl_DTM s) = spec_DTM s || with_offset dtm_space_day s || offset_defect dtm_body_impl s.
Proof. exact accept_DTM_exact. Qed.
Print Assumptions C13_accept_DTM_partial.

(* every accepted HL7 date-time, years 0001-9999 *)
Theorem C13_roundtrip_DTM : forall s e,
  impl_DTM s = Ok e -> spec_DTM s = true -> e = s.
Proof. exact roundtrip_DTM. Qed.
Print Assumptions C13_roundtrip_DTM.

(* ---- SI ---- *)

Definition C13_accept_SI_statement : Prop :=
  forall s, s <> [] -> accepts (impl_SI true (Some 4%Z) s) = spec_SI s && negb (too_long (Some 4%Z) (canon_digits s)).

(* refuted (finding F10): int() takes a sign, blanks, underscores *)
Theorem C13_accept_SI_refuted : ~ C13_accept_SI_statement.
Proof. intros H. specialize (H ("+1" : bs)). vm_compute in H. assert ([x2b; x31] <> @nil byte) as N by discriminate.
  specialize (H N). discriminate. Qed.
Print Assumptions C13_accept_SI_refuted.

(* completeness with the length test, and soundness up to the explicit defect family *)
Theorem C13_accept_SI_partial : forall strict ml s,
  (spec_SI s = true ->
     impl_SI strict ml s = if strict && too_long ml (canon_digits s) then Err (HL7 EMaxLengthReached)
                           else Ok (canon_digits s)) /\
  (s <> [] -> accepts (impl_SI strict ml s) = true ->
     spec_SI s = true \/ (si_decorated s = true /\ existsb si_deco s = true)).
Proof.
  intros strict ml s. split; [apply impl_SI_spec|].
  intros Hs Ha. unfold impl_SI in Ha. destruct s as [|c s]; [congruence|]. cbn [nilb] in Ha.
  destruct (int_parse (c :: s)) as [o|] eqn:E; [|discriminate].
  destruct (spec_SI (c :: s)) eqn:Sp; [now left|right].
  destruct (int_parse_sound _ _ E) as [H|H]; [congruence|].
  split; auto. unfold si_decorated. now rewrite Sp, E.
Qed.
Print Assumptions C13_accept_SI_partial.

(* the same number always, the same text for a plain numeral *)
Theorem C13_roundtrip_SI : forall strict ml s e,
  spec_SI s = true -> impl_SI strict ml s = Ok e ->
  digits_val e = digits_val s /\ (plain_SI s = true -> e = s).
Proof.
  intros strict ml s e Hs Hi. rewrite (impl_SI_spec strict ml s Hs) in Hi.
  destruct (strict && too_long ml (canon_digits s)); [discriminate|]. injection Hi as <-.
  split; [|apply canon_plain]. apply canon_same_number. unfold spec_SI in Hs.
  apply andb_prop in Hs. tauto.
Qed.
Print Assumptions C13_roundtrip_SI.

(* "numerics: to the same number", for EVERY accepted SI text (signs, blanks, underscores and leading zeros
   included): the encoded text is the canonical decimal numeral str(z) of the integer z = int(s) the input
   denotes (int_value: sign * value of the digits, -0 = 0), it denotes z again and int() maps it to itself.
   s <> []: the empty string is "no value" (SI() is built, nothing is parsed). *)
Theorem C13_SI_same_number : forall strict ml s e,
  s <> [] -> impl_SI strict ml s = Ok e ->
  exists z, int_value s = Some z /\ e = Z_to_str z /\ int_value e = Some z /\ int_parse e = Some e.
Proof. exact SI_same_number. Qed.
Print Assumptions C13_SI_same_number.

(* int_value is the obvious reading of a digit string *)
Theorem C13_SI_value_plain : forall s, spec_SI s = true -> int_value s = Some (Z.of_N (digits_val s)).
Proof. exact int_value_spec. Qed.
Print Assumptions C13_SI_value_plain.

(* ---- NM ---- *)

Definition C13_accept_NM_statement : Prop :=
  forall s, s <> [] -> (accepts (impl_NM true (Some 16%Z) s) = true -> spec_NM s = true).

(* refuted (finding F10): Decimal() takes blanks, underscores, exponents, NaN, Infinity *)
Theorem C13_accept_NM_refuted : ~ C13_accept_NM_statement.
Proof.
  intros H. specialize (H (" 1" : bs)). assert ([x20; x31] <> @nil byte) as N by discriminate.
  specialize (H N). vm_compute in H. specialize (H eq_refl). discriminate.
Qed.
Print Assumptions C13_accept_NM_refuted.

(* what holds for every string: on text made of digits, point and signs only, acceptance by Decimal() IS the HL7
   grammar; every HL7 number is accepted (up to the length test); anything else that is accepted contains a
   character outside the grammar's alphabet (the defect family) *)
Theorem C13_accept_NM_partial : forall strict ml s,
  s <> [] ->
  accepts (impl_NM strict ml s) =
    match decimal_parse s with
    | Some d => negb (strict && too_long ml (decimal_str d))
    | None => false
    end /\
  (forallb nm_clean s = true -> parsed s = spec_NM s) /\
  (spec_NM s = true -> parsed s = true) /\
  (parsed s = true -> spec_NM s = true \/ existsb (fun c => negb (nm_clean c)) s = true).
Proof.
  intros strict ml s Hs. repeat split.
  - unfold impl_NM. destruct s; [congruence|]. cbn [nilb]. destruct (decimal_parse _); [|reflexivity].
    destruct (strict && too_long ml (decimal_str d)); reflexivity.
  - apply nm_clean_equiv.
  - apply nm_complete.
  - apply nm_sound.
Qed.
Print Assumptions C13_accept_NM_partial.

Definition C13_roundtrip_NM_statement : Prop :=
  forall s e, plain_NM s = true -> impl_NM true (Some 16%Z) s = Ok e -> e = s.

(* refuted (finding F10): str(Decimal) switches to scientific notation below 1E-6 *)
Theorem C13_roundtrip_NM_refuted : ~ C13_roundtrip_NM_statement.
Proof.
  intros H. specialize (H ("0.0000001" : bs) (unbs "1E-7") eq_refl eq_refl). discriminate.
Qed.
Print Assumptions C13_roundtrip_NM_refuted.

(* a plain decimal that is not of the form 0.000000d... is re-encoded to the same text *)
Theorem C13_roundtrip_NM : forall strict ml s e,
  plain_NM s = true -> nm_small s = false -> impl_NM strict ml s = Ok e -> e = s.
Proof. exact roundtrip_NM_plain. Qed.
Print Assumptions C13_roundtrip_NM.

(* "numerics: to the same number", for EVERY accepted NM text - scientific notation on the way out
   ('0.0000001' -> '1E-7', '1e5' -> '1E+5'), signs, '+', leading and trailing zeros, exponents, blanks and
   underscores included.  Exact form: str(Decimal) is lossless, the encoded text reads back as the very same
   decimal record - same sign (-0 stays -0), same coefficient digits (trailing zeros kept), same exponent
   (0E+3 stays 0E+3); for NaN / sNaN / Infinity (finding F10) same sign, kind and payload.
   No bound on the exponent is needed in the model (exponents are unbounded integers there; CPython limits
   them to 18 digits, which is where the model's claim of fidelity stops).
   s <> []: the empty string is "no value" (NM() is built, nothing is parsed). *)
Theorem C13_NM_reparse_exact : forall strict ml s e,
  s <> [] -> impl_NM strict ml s = Ok e ->
  exists d, decimal_parse s = Some d /\ e = decimal_str d /\ decimal_parse e = Some d.
Proof. exact NM_reparse_exact. Qed.
Print Assumptions C13_NM_reparse_exact.

(* numerical form: dec_same_number compares sign * coefficient * 10^exponent (scaled to the smaller
   exponent, so it is stated over Z); every zero is the same number; special values are the same when they
   print the same *)
Theorem C13_NM_same_number : forall strict ml s e,
  s <> [] -> impl_NM strict ml s = Ok e ->
  exists d d', decimal_parse s = Some d /\ decimal_parse e = Some d' /\ dec_same_number d d'.
Proof. exact NM_same_number. Qed.
Print Assumptions C13_NM_same_number.

(* finite values: the same (signed coefficient, exponent) pair *)
Theorem C13_NM_same_value : forall strict ml s e d,
  s <> [] -> impl_NM strict ml s = Ok e -> decimal_parse s = Some d -> finite_dec d = true ->
  exists c x, dec_value d = Some (c, x) /\
    exists d', decimal_parse e = Some d' /\ finite_dec d' = true /\ dec_value d' = Some (c, x).
Proof. exact NM_same_value. Qed.
Print Assumptions C13_NM_same_value.

(* the special values are not numbers: they are encoded to text that reads back as the same special value *)
Theorem C13_NM_special_reparse : forall strict ml s e t,
  s <> [] -> impl_NM strict ml s = Ok e -> decimal_parse s = Some (DSpecial t) ->
  e = t /\ decimal_parse e = Some (DSpecial t).
Proof. exact NM_special_reparse. Qed.
Print Assumptions C13_NM_special_reparse.

(* dec_same_number is an equivalence, decided by dec_same_numberb *)
Theorem C13_same_number_equivalence :
  (forall d, dec_same_number d d) /\
  (forall d d', dec_same_number d d' -> dec_same_number d' d) /\
  (forall d1 d2 d3, dec_same_number d1 d2 -> dec_same_number d2 d3 -> dec_same_number d1 d3) /\
  (forall d d', dec_same_numberb d d' = true <-> dec_same_number d d').
Proof.
  split; [exact dec_same_number_refl|]. split; [exact dec_same_number_sym|].
  split; [exact dec_same_number_trans|exact dec_same_numberb_spec].
Qed.
Print Assumptions C13_same_number_equivalence.

(* dec_value is the obvious reading of text over the HL7 alphabet: [+-]ip[.fp] is +-(ip fp) * 10^-|fp| *)
Theorem C13_NM_value_plain : forall s d,
  forallb nm_clean s = true -> decimal_parse s = Some d ->
  match split_on (is_c c_dot) (snd (take_sign s)) with
  | (ip, fo) =>
      let fp := match fo with Some x => x | None => [] end in
      dec_value d = Some (dec_signed (fst (take_sign s)) (ip ++ fp), (- Z.of_nat (length fp))%Z)
  end.
Proof. exact NM_value_plain. Qed.
Print Assumptions C13_NM_value_plain.

(* ---- both levels, maximum length ---- *)

(* TOLERANT never rejects; a value STRICT rejects with ValueError falls back to ST, whose encoding is
   escape(s) *)
Theorem C13_tolerant_total : forall v rows name k ml e s,
  slookup v base_datatype_table = Some rows -> row_lookup name rows = Some (k, ml) ->
  In k [KDT; KTM; KDTM; KNM; KSI] ->
  (exists t, impl_kind k false ml s = Ok t /\ factory v TOLERANT name e s = Ok (false, t)) \/
  (exists p, st_family rows = Some p /\ factory v STRICT name e s = Err PyValueError /\
             factory v TOLERANT name e s = Ok (true, escape p e s)).
Proof.
  intros v rows name k ml e s Hv Hn Hk. apply factory_tolerant; auto using C13_params_st.
  cbn in Hk. destruct Hk as [<-|[<-|[<-|[<-|[<-|[]]]]]];
    auto using kind_safe_DT, kind_safe_TM, kind_safe_DTM, kind_safe_NM, kind_safe_SI.
Qed.
Print Assumptions C13_tolerant_total.

(* ... and escape(s) = s for text of ordinary characters and well-formed escape sequences: verbatim *)
Theorem C13_tolerant_verbatim : forall p e s,
  In p esc_families -> ec_valid p e = true -> tok p e s = true ->
  (forall d, In d (escaped_delims p e) -> bmem d s = false) -> escape p e s = s.
Proof.
  intros p e s Hp He. apply escape_tokenised_id; auto.
  assert (F : forallb letters_ok esc_families = true) by (vm_compute; reflexivity).
  exact (forallb_In _ _ _ F Hp).
Qed.
Print Assumptions C13_tolerant_verbatim.

(* a value STRICT accepts is the same object under TOLERANT *)
Theorem C13_strict_subset_tolerant : forall v name e s t fb,
  factory v STRICT name e s = Ok (fb, t) -> fb = false /\ factory v TOLERANT name e s = Ok (false, t).
Proof. exact factory_strict_ok. Qed.
Print Assumptions C13_strict_subset_tolerant.

(* STRICT: a formatted value longer than max_length is rejected with MaxLengthReached (and only then);
   TOLERANT builds it *)
Theorem C13_maxlength : forall ml s,
  s <> [] ->
  (forall d, decimal_parse s = Some d ->
     impl_NM true ml s = (if too_long ml (decimal_str d) then Err (HL7 EMaxLengthReached) else Ok (decimal_str d)) /\
     impl_NM false ml s = Ok (decimal_str d)) /\
  (forall o, int_parse s = Some o ->
     impl_SI true ml s = (if too_long ml o then Err (HL7 EMaxLengthReached) else Ok o) /\
     impl_SI false ml s = Ok o) /\
  (forall t, impl_NM true ml s = Ok t -> too_long ml t = false) /\
  (forall t, impl_SI true ml s = Ok t -> too_long ml t = false).
Proof.
  intros ml s Hs. repeat split.
  - now rewrite (impl_NM_parsed true ml s d Hs H).
  - now rewrite (impl_NM_parsed false ml s d Hs H).
  - now rewrite (impl_SI_parsed true ml s o Hs H).
  - now rewrite (impl_SI_parsed false ml s o Hs H).
  - intros t. now apply impl_NM_accepted_short.
  - intros t. now apply impl_SI_accepted_short.
Qed.
Print Assumptions C13_maxlength.

(* ---- non-vacuity ---- *)
Example C13_ex_DT : impl_DT ("20240229" : bs) = Ok (unbs "20240229") /\ spec_DT ("20240229" : bs) = true /\
                    impl_DT ("20230229" : bs) = Err PyValueError /\ spec_DT ("20230229" : bs) = false.
Proof. vm_compute. auto. Qed.
Example C13_ex_DT_defect : impl_DT ("202011 1" : bs) = Ok (unbs "20201101") /\ dt_space_day ("202011 1" : bs) = true.
Proof. vm_compute. auto. Qed.
(* years below 1000 keep their zero padding; year 0000 is not a date *)
Example C13_ex_year_padding :
  impl_DT ("09990101" : bs) = Ok (unbs "09990101") /\ spec_DT ("09990101" : bs) = true /\
  impl_DT ("0001" : bs) = Ok (unbs "0001") /\ spec_DT ("0001" : bs) = true /\
  impl_DTM ("0999" : bs) = Ok (unbs "0999") /\ spec_DTM ("0999" : bs) = true /\
  impl_DTM ("00991231235959.1234+0100" : bs) = Ok (unbs "00991231235959.1234+0100") /\
  spec_DTM ("00991231235959.1234+0100" : bs) = true /\
  impl_DT ("0000" : bs) = Err PyValueError /\ spec_DT ("0000" : bs) = false.
Proof. vm_compute. repeat split; reflexivity. Qed.
Example C13_ex_TM : impl_TM ("235959.1234-1200" : bs) = Ok (unbs "235959.1234-1200") /\
                    spec_TM ("235959.1234-1200" : bs) = true /\ spec_TM ("12+1500" : bs) = false /\
                    impl_TM ("12+1500" : bs) = Err PyValueError.
Proof. vm_compute. auto. Qed.
Example C13_ex_TM_defect : impl_TM ("12+0100+0100" : bs) = Ok (unbs "12+0100") /\
                           offset_defect spec_time ("12+0100+0100" : bs) = true.
Proof. vm_compute. auto. Qed.
Example C13_ex_DTM : impl_DTM ("20240229235959.1234+0100" : bs) = Ok (unbs "20240229235959.1234+0100") /\
                     spec_DTM ("20240229235959.1234+0100" : bs) = true /\
                     impl_DTM ("202011 112+0100+0100" : bs) = Ok (unbs "2020110112+0100") /\
                     offset_defect dtm_body_impl ("202011 112+0100+0100" : bs) = true.
Proof. vm_compute. auto. Qed.
Example C13_ex_SI : impl_SI true (Some 4%Z) ("0042" : bs) = Ok (unbs "42") /\
                    impl_SI true (Some 4%Z) ("12345" : bs) = Err (HL7 EMaxLengthReached) /\
                    impl_SI false (Some 4%Z) ("12345" : bs) = Ok (unbs "12345") /\
                    impl_SI true (Some 4%Z) ("-1" : bs) = Ok (unbs "-1").
Proof. vm_compute. auto. Qed.
Example C13_ex_NM : impl_NM true (Some 16%Z) ("-12.50" : bs) = Ok (unbs "-12.50") /\ plain_NM ("-12.50" : bs) = true /\
                    nm_small ("-12.50" : bs) = false /\ nm_small ("0.0000001" : bs) = true /\
                    impl_NM true (Some 16%Z) ("0.000001" : bs) = Ok (unbs "0.000001") /\
                    impl_NM true (Some 16%Z) ("12345678901234567" : bs) = Err (HL7 EMaxLengthReached).
Proof. vm_compute. auto 10. Qed.
(* the number clause on the notations str(Decimal) changes: (input, encoded text, sign, coefficient, exponent) *)
Definition nm_reparse_case (s e : bs) (neg : bool) (coeff : bs) (x : Z) : bool :=
  match impl_NM true (Some 16%Z) s, decimal_parse s, decimal_parse e with
  | Ok o, Some (DFin n c y), Some d' =>
      streqb o e && Bool.eqb n neg && streqb c coeff && Z.eqb y x && dec_same_numberb (DFin n c y) d' &&
      match d' with DFin n' c' y' => Bool.eqb n' neg && streqb c' coeff && Z.eqb y' x | _ => false end
  | _, _, _ => false
  end.
Example C13_ex_NM_number :
  nm_reparse_case "0.0000001" "1E-7" false "1" (-7) && nm_reparse_case "1e5" "1E+5" false "1" 5 &&
  nm_reparse_case "-0012.500" "-12.500" true "12500" (-3) && nm_reparse_case "+.5" "0.5" false "5" (-1) &&
  nm_reparse_case "5." "5" false "5" 0 && nm_reparse_case "0E+3" "0E+3" false "0" 3 &&
  nm_reparse_case "-0.00" "-0.00" true "0" (-2) && nm_reparse_case " 1_0e-1_0 " "1.0E-9" false "10" (-10) = true /\
  impl_NM true (Some 16%Z) ("-nan012" : bs) = Ok (unbs "-NaN12") /\
  decimal_parse ("-NaN12" : bs) = decimal_parse ("-nan012" : bs) /\
  dec_same_numberb (DFin false "10" (-1)) (DFin false "1" 0) = true /\
  dec_same_numberb (DFin true "0" 0) (DFin false "0" 3) = true /\
  dec_same_numberb (DFin false "1" 0) (DFin false "1" 1) = false /\
  dec_same_numberb (DFin false "1" 0) (DFin true "1" 0) = false.
Proof. vm_compute. auto 10. Qed.
Example C13_ex_SI_number :
  impl_SI true (Some 4%Z) (" +0_07 " : bs) = Ok (unbs "7") /\ int_value (" +0_07 " : bs) = Some 7%Z /\
  Z_to_str 7 = unbs "7" /\ impl_SI true (Some 4%Z) ("-00" : bs) = Ok (unbs "0") /\ int_value ("-00" : bs) = Some 0%Z /\
  impl_SI true (Some 4%Z) ("-1_2" : bs) = Ok (unbs "-12") /\ int_value ("-1_2" : bs) = Some (-12)%Z /\
  Z_to_str (-12) = unbs "-12" /\ int_parse ("-12" : bs) = Some (unbs "-12").
Proof. vm_compute. auto 10. Qed.
Example C13_ex_factory :
  factory "2.5" TOLERANT "DT" default_ec ("2020|13" : bs) = Ok (true, unbs "2020\F\13") /\
  factory "2.5" STRICT "DT" default_ec ("2020|13" : bs) = Err PyValueError.
Proof. vm_compute. auto. Qed.
