(* C13 - base datatype values: acceptance matches HL7 syntax and text is preserved.
   Theorems only; proofs live in Proofs/DatatypesFacts.v (the regex matcher, strptime on exact-length
   input), Proofs/DatatypesDate.v (DT, TM, DTM) and Proofs/DatatypesNum.v (NM, SI, the factory).
   impl_X = what hl7apy computes (Model/Datatypes.v), spec_X = the HL7 grammar; the offset grid, the
   allowed formats and the maximum lengths are the generated Gen/Params.v.
   Model domain: ASCII strings (NM: exponents of at most 18 digits). *)
From Coq Require Import List Bool NArith ZArith Init.Byte.
From HL7 Require Import Lib.Str Model.Ec Model.Result Model.Escape Model.Datatypes
  Proofs.EscapeFacts Proofs.DatatypesFacts Proofs.DatatypesDate Proofs.DatatypesNum Gen.Params.
Import ListNotations.
Open Scope bs_scope.

(* ---- obligations on the generated parameters (finite, decided by the kernel) ---- *)

Definition Nlist_eqb (a b : list N) : bool := leqb N.eqb a b.
Definition upto (n : nat) : list N := map N.of_nat (seq 0 n).

(* the offsets utils._split_offset recognises are the documented grid +0000..+1459, -0000..-1259 *)
Theorem C13_params_offset_grid :
  offset_grid_is_product && Nlist_eqb offset_plus_hours (upto 15) && Nlist_eqb offset_plus_minutes (upto 60) &&
  Nlist_eqb offset_minus_hours (upto 13) && Nlist_eqb offset_minus_minutes (upto 60) = true.
Proof. vm_compute. reflexivity. Qed.

(* every format utils.py can produce is an allowed out_format of the class *)
Theorem C13_params_formats :
  forallb (fun f => smem (fmt_str f) dt_formats) [[TY]; [TY; Tm]; [TY; Tm; Td]] &&
  forallb (fun f => smem (fmt_str f) tm_formats) [[TH]; [TH; TMi]; [TH; TMi; TS]; [TH; TMi; TS; Tdot; Tf]] &&
  forallb (fun f => smem (fmt_str f) dtm_formats)
    ([[TY]; [TY; Tm]; [TY; Tm; Td]] ++
     map (app [TY; Tm; Td]) [[TH]; [TH; TMi]; [TH; TMi; TS]; [TH; TMi; TS; Tdot; Tf]]) = true.
Proof. vm_compute. reflexivity. Qed.

(* maximum lengths: NM 16 and SI 4 in every version, none for DT / TM / DTM *)
Definition row_ok (r : str * dtkind * option Z) : bool :=
  match r with
  | (_, KNM, ml) => match ml with Some 16%Z => true | _ => false end
  | (_, KSI, ml) => match ml with Some 4%Z => true | _ => false end
  | (_, KDT, ml) | (_, KTM, ml) | (_, KDTM, ml) => match ml with None => true | _ => false end
  | _ => true
  end.
Theorem C13_params_maxlen :
  forallb (fun vr : str * list (str * dtkind * option Z) => forallb row_ok (snd vr)) base_datatype_table = true.
Proof. vm_compute. reflexivity. Qed.

(* every version has the five datatypes it should (DT NM SI everywhere, TM from 2.2, DTM from 2.5) and an ST
   class of a known escape family for the TOLERANT fall-back *)
Theorem C13_params_st : table_has_st = true.
Proof. vm_compute. reflexivity. Qed.

(* ---- DT ---- *)

Definition C13_accept_DT_statement : Prop := forall s, accepts (impl_DT s) = spec_DT s.

(* refuted on the faithful model (finding F10): strptime's blank-padded day *)
Theorem C13_accept_DT_refuted : ~ C13_accept_DT_statement.
Proof. intros H. specialize (H ("202011 1" : bs)). vm_compute in H. discriminate. Qed.
Print Assumptions C13_accept_DT_refuted.

(* what does hold, for every string: the accepted set is exactly the HL7 dates plus YYYYMM-blank-D *)
Theorem C13_accept_DT_partial : forall s, accepts (impl_DT s) = spec_DT s || dt_space_day s.
Proof. exact accept_DT_exact. Qed.
Print Assumptions C13_accept_DT_partial.

Theorem C13_roundtrip_DT : forall s e,
  impl_DT s = Ok e -> spec_DT s = true -> year_ge_1000 s = true -> e = s.
Proof. exact roundtrip_DT. Qed.
Print Assumptions C13_roundtrip_DT.

(* the defect family re-encodes with a zero-padded day *)
Theorem C13_DT_defect_reencodes : forall s e,
  impl_DT s = Ok e -> dt_space_day s = true -> year_ge_1000 s = true -> e = fix_space_day s.
Proof. exact space_day_reencodes. Qed.
Print Assumptions C13_DT_defect_reencodes.

(* utils.check_date is the acceptance test *)
Theorem C13_check_date : forall s, check_date s = Ok (accepts (impl_DT s)).
Proof.
  intros s. unfold check_date, check_of, impl_DT.
  destruct (get_date_info s) as [[v f]|x] eqn:E.
  - cbn [bind fst snd]. unfold get_date_info, date_format in E.
    assert (Hf : dt_ctor dt_formats f = Ok tt).
    { destruct (length s =? 4); [|destruct (length s =? 6); [|destruct (length s =? 8); [|discriminate]]];
        cbn [bind] in E; destruct (strptime s _); try discriminate; injection E as _ <-; reflexivity. }
    now rewrite Hf.
  - assert (impl_DT s = Err x) as Hx by (unfold impl_DT; now rewrite E).
    rewrite (DT_only_valueerror _ _ Hx). reflexivity.
Qed.
Print Assumptions C13_check_date.

(* ---- TM ---- *)

Definition C13_accept_TM_statement : Prop := forall s, accepts (impl_TM s) = spec_TM s.

(* refuted (finding F10): str.replace removes every copy of the offset *)
Theorem C13_accept_TM_refuted : ~ C13_accept_TM_statement.
Proof. intros H. specialize (H ("12+0100+0100" : bs)). vm_compute in H. discriminate. Qed.
Print Assumptions C13_accept_TM_refuted.

(* exactly: HH[MM[SS[.S{1,4}]]][+/-ZZZZ] on the offset grid, plus the values in which the final offset
   occurs more than once and a well-formed time is left when every copy is removed *)
Theorem C13_accept_TM_partial : forall s, accepts (impl_TM s) = spec_TM s || offset_defect spec_time s.
Proof. exact accept_TM_exact. Qed.
Print Assumptions C13_accept_TM_partial.

(* fraction digits and offset are preserved *)
Theorem C13_roundtrip_TM : forall s e, impl_TM s = Ok e -> spec_TM s = true -> e = s.
Proof. exact roundtrip_TM. Qed.
Print Assumptions C13_roundtrip_TM.

Theorem C13_TM_defect_reencodes : forall s e,
  impl_TM s = Ok e -> offset_defect spec_time s = true -> e = dedup_offset s.
Proof. exact TM_defect_reencodes. Qed.
Print Assumptions C13_TM_defect_reencodes.

(* the regex of utils._split_offset recognises exactly the grid of Gen/Params.v *)
Theorem C13_offset_regex_is_grid : forall o, off_match o = spec_offset o.
Proof. exact off_match_spec. Qed.
Print Assumptions C13_offset_regex_is_grid.

(* ---- DTM ---- *)

Definition C13_accept_DTM_statement : Prop := forall s, accepts (impl_DTM s) = spec_DTM s.

(* refuted (finding F10): both defects of DT and TM are inherited *)
Theorem C13_accept_DTM_refuted : ~ C13_accept_DTM_statement.
Proof. intros H. specialize (H ("202011 1" : bs)). vm_compute in H. discriminate. Qed.
Print Assumptions C13_accept_DTM_refuted.

(* exactly: YYYY[MM[DD[HH[MM[SS[.S{1,4}]]]]]][+/-ZZZZ], plus the same with a blank-padded day, plus the
   values in which the final offset occurs more than once and an accepted body is left when every copy is
   removed *)
Theorem C13_accept_DTM_partial : forall s,
  accepts (impl_DTM s) = spec_DTM s || with_offset dtm_space_day s || offset_defect dtm_body_impl s.
Proof. exact accept_DTM_exact. Qed.
Print Assumptions C13_accept_DTM_partial.

Theorem C13_roundtrip_DTM : forall s e,
  impl_DTM s = Ok e -> spec_DTM s = true -> year_ge_1000 s = true -> e = s.
Proof. exact roundtrip_DTM. Qed.
Print Assumptions C13_roundtrip_DTM.

(* ---- SI ---- *)

Definition C13_accept_SI_statement : Prop :=
  forall s, s <> [] -> accepts (impl_SI true (Some 4%Z) s) = spec_SI s && negb (too_long (Some 4%Z) (canon_digits s)).

(* refuted (finding F10): int() takes a sign, blanks, underscores *)
Theorem C13_accept_SI_refuted : ~ C13_accept_SI_statement.
Proof. intros H. specialize (H ("+1" : bs)). vm_compute in H. assert ([x2b; x31] <> @nil byte) as N by discriminate.
  specialize (H N). discriminate. Qed.
Print Assumptions C13_accept_SI_refuted.

(* completeness with the length test, and soundness up to the explicit defect family *)
Theorem C13_accept_SI_partial : forall strict ml s,
  (spec_SI s = true ->
     impl_SI strict ml s = if strict && too_long ml (canon_digits s) then Err (HL7 EMaxLengthReached)
                           else Ok (canon_digits s)) /\
  (s <> [] -> accepts (impl_SI strict ml s) = true ->
     spec_SI s = true \/ (si_decorated s = true /\ existsb si_deco s = true)).
Proof.
  intros strict ml s. split; [apply impl_SI_spec|].
  intros Hs Ha. unfold impl_SI in Ha. destruct s as [|c s]; [congruence|]. cbn [nilb] in Ha.
  destruct (int_parse (c :: s)) as [o|] eqn:E; [|discriminate].
  destruct (spec_SI (c :: s)) eqn:Sp; [now left|right].
  destruct (int_parse_sound _ _ E) as [H|H]; [congruence|].
  split; auto. unfold si_decorated. now rewrite Sp, E.
Qed.
Print Assumptions C13_accept_SI_partial.

(* the same number always, the same text for a plain numeral *)
Theorem C13_roundtrip_SI : forall strict ml s e,
  spec_SI s = true -> impl_SI strict ml s = Ok e ->
  digits_val e = digits_val s /\ (plain_SI s = true -> e = s).
Proof.
  intros strict ml s e Hs Hi. rewrite (impl_SI_spec strict ml s Hs) in Hi.
  destruct (strict && too_long ml (canon_digits s)); [discriminate|]. injection Hi as <-.
  split; [|apply canon_plain]. apply canon_same_number. unfold spec_SI in Hs.
  apply andb_prop in Hs. tauto.
Qed.
Print Assumptions C13_roundtrip_SI.

(* ---- NM ---- *)

Definition C13_accept_NM_statement : Prop :=
  forall s, s <> [] -> (accepts (impl_NM true (Some 16%Z) s) = true -> spec_NM s = true).

(* refuted (finding F10): Decimal() takes blanks, underscores, exponents, NaN, Infinity *)
Theorem C13_accept_NM_refuted : ~ C13_accept_NM_statement.
Proof.
  intros H. specialize (H (" 1" : bs)). assert ([x20; x31] <> @nil byte) as N by discriminate.
  specialize (H N). vm_compute in H. specialize (H eq_refl). discriminate.
Qed.
Print Assumptions C13_accept_NM_refuted.

(* what holds for every string: on text made of digits, point and signs only, acceptance by Decimal() IS the HL7
   grammar; every HL7 number is accepted (up to the length test); anything else that is accepted contains a
   character outside the grammar's alphabet (the defect family) *)
Theorem C13_accept_NM_partial : forall strict ml s,
  s <> [] ->
  accepts (impl_NM strict ml s) =
    match decimal_parse s with
    | Some d => negb (strict && too_long ml (decimal_str d))
    | None => false
    end /\
  (forallb nm_clean s = true -> parsed s = spec_NM s) /\
  (spec_NM s = true -> parsed s = true) /\
  (parsed s = true -> spec_NM s = true \/ existsb (fun c => negb (nm_clean c)) s = true).
Proof.
  intros strict ml s Hs. repeat split.
  - unfold impl_NM. destruct s; [congruence|]. cbn [nilb]. destruct (decimal_parse _); [|reflexivity].
    destruct (strict && too_long ml (decimal_str d)); reflexivity.
  - apply nm_clean_equiv.
  - apply nm_complete.
  - apply nm_sound.
Qed.
Print Assumptions C13_accept_NM_partial.

Definition C13_roundtrip_NM_statement : Prop :=
  forall s e, plain_NM s = true -> impl_NM true (Some 16%Z) s = Ok e -> e = s.

(* refuted (finding F10): str(Decimal) switches to scientific notation below 1E-6 *)
Theorem C13_roundtrip_NM_refuted : ~ C13_roundtrip_NM_statement.
Proof.
  intros H. specialize (H ("0.0000001" : bs) (unbs "1E-7") eq_refl eq_refl). discriminate.
Qed.
Print Assumptions C13_roundtrip_NM_refuted.

(* a plain decimal that is not of the form 0.000000d... is re-encoded to the same text *)
Theorem C13_roundtrip_NM : forall strict ml s e,
  plain_NM s = true -> nm_small s = false -> impl_NM strict ml s = Ok e -> e = s.
Proof. exact roundtrip_NM_plain. Qed.
Print Assumptions C13_roundtrip_NM.

(* ---- both levels, maximum length ---- *)

(* TOLERANT never rejects; a value STRICT rejects with ValueError falls back to ST, whose encoding is
   escape(s) *)
Theorem C13_tolerant_total : forall v rows name k ml e s,
  slookup v base_datatype_table = Some rows -> row_lookup name rows = Some (k, ml) ->
  In k [KDT; KTM; KDTM; KNM; KSI] ->
  (exists t, impl_kind k false ml s = Ok t /\ factory v TOLERANT name e s = Ok (false, t)) \/
  (exists p, st_family rows = Some p /\ factory v STRICT name e s = Err PyValueError /\
             factory v TOLERANT name e s = Ok (true, escape p e s)).
Proof.
  intros v rows name k ml e s Hv Hn Hk. apply factory_tolerant; auto using C13_params_st.
  cbn in Hk. destruct Hk as [<-|[<-|[<-|[<-|[<-|[]]]]]];
    auto using kind_safe_DT, kind_safe_TM, kind_safe_DTM, kind_safe_NM, kind_safe_SI.
Qed.
Print Assumptions C13_tolerant_total.

(* ... and escape(s) = s for text of ordinary characters and well-formed escape sequences: verbatim *)
Theorem C13_tolerant_verbatim : forall p e s,
  In p esc_families -> ec_valid p e = true -> tok p e s = true ->
  (forall d, In d (escaped_delims p e) -> bmem d s = false) -> escape p e s = s.
Proof.
  intros p e s Hp He. apply escape_tokenised_id; auto.
  assert (F : forallb letters_ok esc_families = true) by (vm_compute; reflexivity).
  exact (forallb_In _ _ _ F Hp).
Qed.
Print Assumptions C13_tolerant_verbatim.

(* a value STRICT accepts is the same object under TOLERANT *)
Theorem C13_strict_subset_tolerant : forall v name e s t fb,
  factory v STRICT name e s = Ok (fb, t) -> fb = false /\ factory v TOLERANT name e s = Ok (false, t).
Proof. exact factory_strict_ok. Qed.
Print Assumptions C13_strict_subset_tolerant.

(* STRICT: a formatted value longer than max_length is rejected with MaxLengthReached (and only then);
   TOLERANT builds it *)
Theorem C13_maxlength : forall ml s,
  s <> [] ->
  (forall d, decimal_parse s = Some d ->
     impl_NM true ml s = (if too_long ml (decimal_str d) then Err (HL7 EMaxLengthReached) else Ok (decimal_str d)) /\
     impl_NM false ml s = Ok (decimal_str d)) /\
  (forall o, int_parse s = Some o ->
     impl_SI true ml s = (if too_long ml o then Err (HL7 EMaxLengthReached) else Ok o) /\
     impl_SI false ml s = Ok o) /\
  (forall t, impl_NM true ml s = Ok t -> too_long ml t = false) /\
  (forall t, impl_SI true ml s = Ok t -> too_long ml t = false).
Proof.
  intros ml s Hs. repeat split.
  - now rewrite (impl_NM_parsed true ml s d Hs H).
  - now rewrite (impl_NM_parsed false ml s d Hs H).
  - now rewrite (impl_SI_parsed true ml s o Hs H).
  - now rewrite (impl_SI_parsed false ml s o Hs H).
  - intros t. now apply impl_NM_accepted_short.
  - intros t. now apply impl_SI_accepted_short.
Qed.
Print Assumptions C13_maxlength.

(* ---- non-vacuity ---- *)
Example C13_ex_DT : impl_DT ("20240229" : bs) = Ok (unbs "20240229") /\ spec_DT ("20240229" : bs) = true /\
                    impl_DT ("20230229" : bs) = Err PyValueError /\ spec_DT ("20230229" : bs) = false.
Proof. vm_compute. auto. Qed.
Example C13_ex_DT_defect : impl_DT ("202011 1" : bs) = Ok (unbs "20201101") /\ dt_space_day ("202011 1" : bs) = true.
Proof. vm_compute. auto. Qed.
Example C13_ex_TM : impl_TM ("235959.1234-1200" : bs) = Ok (unbs "235959.1234-1200") /\
                    spec_TM ("235959.1234-1200" : bs) = true /\ spec_TM ("12+1500" : bs) = false /\
                    impl_TM ("12+1500" : bs) = Err PyValueError.
Proof. vm_compute. auto. Qed.
Example C13_ex_TM_defect : impl_TM ("12+0100+0100" : bs) = Ok (unbs "12+0100") /\
                           offset_defect spec_time ("12+0100+0100" : bs) = true.
Proof. vm_compute. auto. Qed.
Example C13_ex_DTM : impl_DTM ("20240229235959.1234+0100" : bs) = Ok (unbs "20240229235959.1234+0100") /\
                     spec_DTM ("20240229235959.1234+0100" : bs) = true /\
                     impl_DTM ("202011 112+0100+0100" : bs) = Ok (unbs "2020110112+0100") /\
                     offset_defect dtm_body_impl ("202011 112+0100+0100" : bs) = true.
Proof. vm_compute. auto. Qed.
Example C13_ex_SI : impl_SI true (Some 4%Z) ("0042" : bs) = Ok (unbs "42") /\
                    impl_SI true (Some 4%Z) ("12345" : bs) = Err (HL7 EMaxLengthReached) /\
                    impl_SI false (Some 4%Z) ("12345" : bs) = Ok (unbs "12345") /\
                    impl_SI true (Some 4%Z) ("-1" : bs) = Ok (unbs "-1").
Proof. vm_compute. auto. Qed.
Example C13_ex_NM : impl_NM true (Some 16%Z) ("-12.50" : bs) = Ok (unbs "-12.50") /\ plain_NM ("-12.50" : bs) = true /\
                    nm_small ("-12.50" : bs) = false /\ nm_small ("0.0000001" : bs) = true /\
                    impl_NM true (Some 16%Z) ("0.000001" : bs) = Ok (unbs "0.000001") /\
                    impl_NM true (Some 16%Z) ("12345678901234567" : bs) = Err (HL7 EMaxLengthReached).
Proof. vm_compute. auto 10. Qed.
Example C13_ex_factory :
  factory "2.5" TOLERANT "DT" default_ec ("2020|13" : bs) = Ok (true, unbs "2020\F\13") /\
  factory "2.5" STRICT "DT" default_ec ("2020|13" : bs) = Err PyValueError.
Proof. vm_compute. auto. Qed.
