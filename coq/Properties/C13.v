From Coq Require Import List Bool NArith ZArith Init.Byte.
From HL7 Require Import Lib.Str Model.Ec Model.Result Model.Datatypes Proofs.DatatypesFacts Gen.Params.
Import ListNotations.
Open Scope bs_scope.
Example C13_stub : impl_DT ("2020" : bs) = Ok (unbs "2020").
Proof. vm_compute. reflexivity. Qed.
