(* C08 - Group finding is sound, order preserving and deterministic.
   Theorems only; proofs live in Proofs/GroupsFacts.v.  Model: Model/Groups.v (the search
   _get_segment_reference and the find_groups=True loop of parse_segments, written once for
   segment names and for parsed segments) and Model/Message.v (to_er7 of groups and messages).
   The finite clause "the group tree is the one the structure prescribes" is decided per version by
   the kernel in Oblig/C08_v2_X.v; the failing structures are listed in those statements. *)
From Coq Require Import List Bool Arith ZArith NArith Init.Byte.
From HL7 Require Import Lib.Str Model.Ec Model.Result Model.Ref Model.Tree Model.Parser Model.Encode
                        Model.MsgTree Model.Groups Model.Message Proofs.GroupsFacts Proofs.GroupsEnc Proofs.GroupsMirror
                        Proofs.PiecesFacts Proofs.LineEnds.
From HL7 Require Gen.Tables_v2_3.
Import ListNotations.
Open Scope bs_scope.
Open Scope res_scope.

(* ---- vocabulary ----
   find_groups_names t root names   the forest the search builds for a sequence of segment names
                                    against the reference `root` (Err = a Python exception)
   gflatten f                       the segments of a forest in document order
   ne_tree x                        every group of x has at least one child
   enc_gforest g f                  Group.to_er7 under TOLERANT (insertion order, CR-joined) with g
                                    encoding one segment
   parse_segments_grouped           the same loop on the CR-separated pieces of a message text
   pieces text                      the items of that loop: text.split(CR), every piece STRIPPED, the pieces
                                    that are empty after stripping skipped (parser.py strips the piece before
                                    it takes the segment name s[:3]; C08_pieces_stripped)
   crlf text                        text.replace(CR, CR LF) *)

(* ---- order: flattening the forest yields exactly the input sequence (ALL sequences, ALL
        structures; the nodes hold the upper-cased names, as Segment.name does) ---- *)
Theorem C08_order : forall t root names f,
  find_groups_names t root names = Ok f -> gflatten f = map upper names.
Proof.
  intros t root names f H. apply find_groups_order in H. destruct H as [_ H].
  exact (Forall2_map_ok upper names (gflatten f) H).
Qed.
Print Assumptions C08_order.

(* the same on real segments: one parsed segment per non-blank piece of the text, in order, each
   parsed from its own (stripped) piece (with the reference found, or with none) *)
Theorem C08_order_segments : forall t lvl e leaf root text nodes,
  parse_segments_grouped t lvl e leaf root text = Ok nodes ->
  Forall2 (fun piece s => exists r, seg_of_piece t lvl e leaf piece r = Ok s) (pieces text) (flatten nodes).
Proof.
  intros t lvl e leaf root text nodes H. unfold parse_segments_grouped in H.
  apply bind_ok in H. destruct H as (f & Hf & H). injection H as <-.
  unfold parse_segments_grouped_trees in Hf. apply find_groups_order in Hf. destruct Hf as [_ Hf].
  now rewrite flatten_node_of.
Qed.
Print Assumptions C08_order_segments.

(* no group is ever left without a child *)
Theorem C08_no_empty_group : forall t root names f,
  find_groups_names t root names = Ok f -> Forall (ne_tree str) f.
Proof. intros t root names f H. now apply find_groups_order in H. Qed.
Print Assumptions C08_no_empty_group.

(* ---- same encoding: whatever encodes one segment, the insertion-order (TOLERANT) encoding of
        the grouped forest is the CR-join of the encoded input sequence, i.e. the encoding of the
        flat parse ---- *)
Theorem C08_same_encoding : forall t root names f (g : str -> str),
  find_groups_names t root names = Ok f ->
  enc_gforest str g f = bjoin CR (map g (map upper names)).
Proof.
  intros t root names f g H. rewrite <- (C08_order t root names f H).
  apply enc_ne_forest. now apply (C08_no_empty_group t root names).
Qed.
Print Assumptions C08_same_encoding.

Theorem C08_same_encoding_segments : forall t lvl e leaf root text f (g : seg -> str),
  parse_segments_grouped_trees t lvl e leaf root text = Ok f ->
  enc_gforest seg g f = bjoin CR (map g (gflatten f)).
Proof.
  intros t lvl e leaf root text f g H. apply enc_ne_forest.
  unfold parse_segments_grouped_trees in H. now apply find_groups_order in H.
Qed.
Print Assumptions C08_same_encoding_segments.

(* ---- soundness.  Vocabulary (Proofs/GroupsFacts.v):
     declared t pr k n r      the reference pr lists a child of kind k named n whose reference is r
     groups_by_name t root    table hypothesis: every group row reachable from root is written by
                              name (it IS the group table's entry of that name) and its name is upper
                              case; decided by the computable tab_ok (per version: Oblig/C08_v2_X.v)
     sound_tree .. pr x       x hangs correctly under a parent whose reference is pr:
                                a group node (g, r, st, children): declared t pr GRP g r, st is the
                                  structure of r, every child is sound under r;
                                a segment parsed WITH a reference sr (= placed by the search): it came
                                  from an input item i and declared t pr SEG (name of i) sr;
                                a segment parsed without reference (= the search found it nowhere
                                  between the current level and the top): no constraint.
   Hence every segment hangs under a chain of groups each of which is a declared child of its
   parent, and every placed segment is a declared child of its group. ---- *)
Theorem C08_sound : forall t root names f,
  groups_by_name t root ->
  find_groups_names t root names = Ok f ->
  Forall (sound_tree t str str (fun n => n) (fun n _ => Ok (upper n)) root) f.
Proof. intros t root names f H. apply find_groups_sound. exact H. Qed.
Print Assumptions C08_sound.

(* the same with the decidable form of the table hypothesis *)
Theorem C08_sound_checked : forall t root names f fuel,
  tab_ok t fuel root = true ->
  find_groups_names t root names = Ok f ->
  Forall (sound_tree t str str (fun n => n) (fun n _ => Ok (upper n)) root) f.
Proof. intros t root names f fuel H. apply C08_sound. now apply (tab_ok_sound t fuel). Qed.
Print Assumptions C08_sound_checked.

(* on real segments: groups declared, every segment that was parsed with a reference is a declared
   child named like the first three characters of its STRIPPED piece of text *)
Theorem C08_sound_segments : forall t lvl e leaf root text f,
  groups_by_name t root ->
  parse_segments_grouped_trees t lvl e leaf root text = Ok f ->
  Forall (sound_tree t str seg (take 3) (seg_of_piece t lvl e leaf) root) f.
Proof. intros t lvl e leaf root text f H. apply find_groups_sound. exact H. Qed.
Print Assumptions C08_sound_segments.

(* unplaced segments are exactly those the search does not find.  A segment carries a reference
   iff the loop reached `parse_segment(..., ref)` with the reference _get_segment_reference returned
   (C08_sound: it is then a declared child).  Conversely a segment is left without reference only
   if the search from the MESSAGE reference itself finds its name nowhere: the stack mirrors the
   chain of open groups exactly, so the last of the len(parents_refs) attempts searches the whole
   structure.  Needs, besides groups_by_name, that group names are pairwise distinct along every
   path of the structure (decided by names_distinct, per version in Oblig/C08_v2_X.v).
     unplaced_ok .. a r :=  r = None -> exists input item i, a is i parsed without reference
                                        /\ search t search_fuel (name of i) root = Ok None *)
Theorem C08_unplaced : forall t root names f,
  groups_by_name t root ->
  (forall ex, chain t root ex -> NoDup (map fst ex)) ->
  find_groups_names t root names = Ok f ->
  Forall (seg_all str (unplaced_ok t str str (fun n => n) (fun n _ => Ok (upper n)) root)) f.
Proof. intros t root names f H1 H2. now apply find_groups_unplaced. Qed.
Print Assumptions C08_unplaced.

Theorem C08_unplaced_checked : forall t root names f fuel,
  tab_ok t fuel root = true -> names_distinct t fuel [] root = true ->
  find_groups_names t root names = Ok f ->
  Forall (seg_all str (unplaced_ok t str str (fun n => n) (fun n _ => Ok (upper n)) root)) f.
Proof.
  intros t root names f fuel H1 H2. apply C08_unplaced.
  - now apply (tab_ok_sound t fuel).
  - intros ex Hc. now apply (names_distinct_sound t fuel [] root H2 ex).
Qed.
Print Assumptions C08_unplaced_checked.

(* the same through the model of Group/Message.to_er7 (Model/Message.v, TOLERANT): the grouped
   children and the flat list of the same parsed segments encode identically, provided each
   segment encodes (g names the encodings) *)
Theorem C08_same_encoding_message : forall t lvl e leaf root text f st (g : seg -> str),
  parse_segments_grouped_trees t lvl e leaf root text = Ok f ->
  Forall (fun s => enc_segment t e s false = Ok (g s)) (gflatten f) ->
  enc_children t TOLERANT e st (map node_of f) = enc_children t TOLERANT e st (map NSeg (gflatten f)).
Proof.
  intros t lvl e leaf root text f st g H Hg.
  rewrite (enc_children_tolerant t e g st f Hg), (enc_children_flat t e g st (gflatten f) Hg).
  f_equal. exact (C08_same_encoding_segments t lvl e leaf root text f g H).
Qed.
Print Assumptions C08_same_encoding_message.

(* ---- line ends.  parse_segments strips every CR-separated piece BEFORE it takes the segment name and
        skips the pieces that are blank after stripping (the name used to be taken from the unstripped
        piece: with CR LF line ends it was "\nPI", found in no group, and parse_message silently
        returned a flat tree; a trailing CR LF raised InvalidName). ---- *)

(* every item of the loop is stripped and non-empty: `take 3` in the theorems above is the first three
   characters of the stripped piece *)
Theorem C08_pieces_stripped : forall text, Forall (fun p => strip p = p /\ p <> []) (pieces text).
Proof. exact pieces_stripped_nonempty. Qed.
Print Assumptions C08_pieces_stripped.

(* LF after every CR changes nothing: same forest (also same errors), grouped and flat, and the same
   result of parse_message at every level and in both group modes *)
Theorem C08_crlf_same_forest : forall t lvl e leaf root text,
  parse_segments_grouped_trees t lvl e leaf root (crlf text) = parse_segments_grouped_trees t lvl e leaf root text.
Proof. exact crlf_same_forest. Qed.
Print Assumptions C08_crlf_same_forest.

Theorem C08_crlf_same_flat : forall t lvl e leaf text,
  parse_segments_flat t lvl e leaf (crlf text) = parse_segments_flat t lvl e leaf text.
Proof. exact crlf_same_flat. Qed.
Print Assumptions C08_crlf_same_flat.

Theorem C08_crlf_same_message : forall lib dflt lvl fg text,
  parse_message lib dflt lvl fg (crlf text) = parse_message lib dflt lvl fg text.
Proof. exact parse_message_crlf. Qed.
Print Assumptions C08_crlf_same_message.

(* blanks around the lines: two CR-joined sequences of (CR-free) lines that agree line by line after
   stripping give the same forest *)
Theorem C08_blank_padding_same_forest : forall t lvl e leaf root lines lines',
  lines <> [] -> lines' <> [] ->
  Forall (fun l => bmem CR l = false) lines -> Forall (fun l => bmem CR l = false) lines' ->
  map strip lines = map strip lines' ->
  parse_segments_grouped_trees t lvl e leaf root (bjoin CR lines) =
  parse_segments_grouped_trees t lvl e leaf root (bjoin CR lines').
Proof. exact padding_same_forest. Qed.
Print Assumptions C08_blank_padding_same_forest.

(* a blank tail after a final CR (trailing CR, CR LF, CR blank ...) adds nothing *)
Theorem C08_trailing_blank_same_forest : forall t lvl e leaf root text tail,
  forallb is_space tail = true -> bmem CR tail = false ->
  parse_segments_grouped_trees t lvl e leaf root (text ++ CR :: tail) =
  parse_segments_grouped_trees t lvl e leaf root text.
Proof. exact trailing_blank_same_forest. Qed.
Print Assumptions C08_trailing_blank_same_forest.

(* the reproducer: CR LF line ends (and a trailing CR LF, and blank-padded lines) get their groups *)
Example C08_crlf_example :
  let lines := map unbs ["MSH|^~\&|A|B|C|D|20200101||ORU^R01|1|P|2.3"; "PID|1"; "OBR|1"; "OBX|1"] in
  let lib := fun v : str => if streqb v "2.3" then Some Gen.Tables_v2_3.tables else None in
  let dump := fun text => match parse_message lib "2.3" TOLERANT true text with
                          | Ok (_, m) => dump_message m | Err _ => [] end in
  dump (bjoins [CR; LF] lines ++ [CR; LF])
    = "ORU_R01:MSH (ORU_R01_RESPONSE (ORU_R01_PATIENT PID) (ORU_R01_ORDER_OBSERVATION OBR (ORU_R01_OBSERVATION OBX)))" /\
  dump (bjoins [CR; LF] (map (fun l => " " ++ l ++ " ") lines)) = dump (bjoin CR lines).
Proof. split; vm_compute; reflexivity. Qed.

(* ---- determinism: the search is a function of (tables, reference, sequence) ---- *)
Theorem C08_deterministic : forall t root names r1 r2,
  find_groups_names t root names = r1 -> find_groups_names t root names = r2 -> r1 = r2.
Proof. intros; congruence. Qed.
Print Assumptions C08_deterministic.

(* ---- prescribed forest: the full statement "for every structure whose segment names occur at
        a single place the search returns the prescribed forest" is FALSE of the code (F6).
        v2.3 MFN_M10 = MSH MFI { MF_TEST_BATTERIES 1..* { MF_TEST_BATT_DETAIL 0..1 { OM5 1..1, OM4 0..* } } }:
        when OM5 recurs the finder opens a second MF_TEST_BATT_DETAIL (maximum 1) inside the same
        MF_TEST_BATTERIES instead of a new MF_TEST_BATTERIES. ---- *)
Theorem C08_prescribed_refuted :
  exists r f,
    slookup "MFN_M10" (t_messages Gen.Tables_v2_3.tables) = Some r /\
    unique_places Gen.Tables_v2_3.tables r = true /\
    find_groups_names Gen.Tables_v2_3.tables r (map unbs ["MSH"; "MFI"; "OM5"; "OM4"; "OM5"]) = Ok f /\
    dump_nforest f = "MSH MFI (MFN_M10_MF_TEST_BATTERIES (MFN_M10_MF_TEST_BATT_DETAIL OM5 OM4) (MFN_M10_MF_TEST_BATT_DETAIL OM5))" /\
    within_max Gen.Tables_v2_3.tables inst_fuel r f = false.
Proof.
  eexists. eexists. split; [vm_compute; reflexivity|]. split; [vm_compute; reflexivity|].
  split; [vm_compute; reflexivity|]. split; vm_compute; reflexivity.
Qed.
Print Assumptions C08_prescribed_refuted.

(* the hypotheses of the general theorems are satisfiable: a sequence that needs groups *)
Example C08_example_groups :
  exists r f,
    slookup "ORU_R01" (t_messages Gen.Tables_v2_3.tables) = Some r /\
    find_groups_names Gen.Tables_v2_3.tables r (map unbs ["MSH"; "PID"; "OBR"; "OBX"; "OBX"; "OBR"; "OBX"]) = Ok f /\
    dump_nforest f = "MSH (ORU_R01_RESPONSE (ORU_R01_PATIENT PID) (ORU_R01_ORDER_OBSERVATION OBR (ORU_R01_OBSERVATION OBX) (ORU_R01_OBSERVATION OBX)) (ORU_R01_ORDER_OBSERVATION OBR (ORU_R01_OBSERVATION OBX)))".
Proof. eexists. eexists. split; [vm_compute; reflexivity|]. split; vm_compute; reflexivity. Qed.
