(* C07 - A message's encoding characters govern its entire encoding.
   Theorems only; proofs live in Proofs/MsgEcFacts.v and Proofs/HeaderFacts.v.  Models:
   Model/MsgEc.v (check_encoding_chars, Message._set/_get_encoding_chars, the MSH header text,
   Element.encoding_chars along the parent chain, to_mllp) and Model/Header.v (_split_msh).
   The default sets and the list of supported versions are the generated Gen/Params.v.

   Scope of this file: everything the property says about the header and about the
   encoding_chars attribute.  The clause "parse_message(to_er7()) ... an identically encoding
   tree" for the segments after MSH needs the tree parser/encoder model (C01) and is decided by
   the implementation-side oracle of harness/c07.py until that model exists. *)
From Coq Require Import List Bool Arith NArith Init.Byte.
From HL7 Require Import Lib.Str Model.Ec Model.Result Model.Header Model.MsgEc
                        Proofs.MsgEcFacts Proofs.HeaderFacts Gen.Params.
Import ListNotations.
Open Scope bs_scope.
Open Scope res_scope.

(* ---- vocabulary (defined in Proofs/): ----
   ec_wf e          the five required characters and TRUNCATION (when supplied) pairwise distinct
   ecd_of_ec e      the Python dict holding those characters
   norm_ec v e      e with TRUNCATION kept iff v >= '2.7' (Python string comparison)
   trunc_part v e   [t] when TRUNCATION = t is supplied and v >= '2.7', else []
   ec_textual e     no character of the set is white space (CR included); FIELD is not a letter of "MSH"
   field_ok e x     x contains neither CR nor the field separator *)

(* ---- read-back: get_ec (set_ec v ec) = ec normalised ---- *)
Theorem C07_get_set : forall v e, ec_wf e = true ->
  (do '(f1, f2) <- set_encoding_chars v (ecd_of_ec e); get_encoding_chars v f1 f2)
  = Ok (ecd_of_ec (norm_ec v e)).
Proof. intros v e H. rewrite (set_of_ec v e H). cbn [bind]. apply get_of_set. Qed.
Print Assumptions C07_get_set.

(* the same through the constructor Message(name, version=v, encoding_chars=ec) *)
Theorem C07_get_set_message : forall v e ts, ec_wf e = true ->
  (do m <- new_message v (ecd_of_ec e) ts; msg_encoding_chars m) = Ok (ecd_of_ec (norm_ec v e)).
Proof.
  intros v e ts H. rewrite (new_message_of_ec v e ts H). cbn [bind]. unfold msg_encoding_chars.
  cbn [m_version m_msh1 m_msh2]. apply get_of_set.
Qed.
Print Assumptions C07_get_set_message.

(* "from v2.7 the truncation character is emitted exactly when supplied" *)
Theorem C07_truncation_iff : forall v e t,
  tsep (norm_ec v e) = Some t <-> (tsep e = Some t /\ ge_27 v = true).
Proof.
  intros v e t. unfold norm_ec. cbn [tsep]. destruct (ge_27 v); split; intros H.
  - now split.
  - now destruct H.
  - discriminate.
  - destruct H; discriminate.
Qed.
Print Assumptions C07_truncation_iff.

(* which of the shipped versions compare >= '2.7' (re-decided against the generated list) *)
Theorem C07_versions_from_27 :
  filter ge_27 supported_versions = [("2.7" : str); ("2.8" : str); ("2.8.1" : str); ("2.8.2" : str)]
  /\ length supported_versions = 12.
Proof. vm_compute. split; reflexivity. Qed.
Print Assumptions C07_versions_from_27.

(* ---- the header spells the set out ---- *)
Theorem C07_header : forall v e rest, ec_wf e = true ->
  exists f1 f2, set_encoding_chars v (ecd_of_ec e) = Ok (f1, f2) /\
  msh_to_er7 (mk_msg v f1 f2 rest) =
  Ok (("MSH" : str) ++ fsep e :: [csep e; rsep e; esc e; ssep e] ++ trunc_part v e ++
      concat (map (fun x => fsep e :: x) rest)).
Proof.
  intros v e rest H. exists [fsep e], (msh2_of v e). split; [exact (set_of_ec v e H)|].
  rewrite msh_to_er7_of_set. now rewrite header_text_eq.
Qed.
Print Assumptions C07_header.

(* a fresh message: MSH, field separator, component, repetition, escape, subcomponent
   (, truncation), then MSH-3.. with MSH-7 = timestamp and MSH-12 = version *)
Theorem C07_header_new_message : forall v e ts, ec_wf e = true ->
  (do m <- new_message v (ecd_of_ec e) ts; msh_to_er7 m) =
  Ok (("MSH" : str) ++ fsep e :: [csep e; rsep e; esc e; ssep e] ++ trunc_part v e ++
      [fsep e; fsep e; fsep e; fsep e; fsep e] ++ ts ++
      [fsep e; fsep e; fsep e; fsep e; fsep e] ++ v).
Proof.
  intros v e ts H. rewrite (new_message_of_ec v e ts H). cbn [bind].
  rewrite msh_to_er7_of_set, header_text_eq. cbn [map concat app]. now rewrite app_nil_r.
Qed.
Print Assumptions C07_header_new_message.

(* every character of the header is a letter of "MSH", one of the message's encoding characters,
   or a character of one of the fields MSH-3... *)
Theorem C07_header_only_these_separators : forall v e rest b,
  In b (header_text v e rest) ->
  In b ("MSH" : str) \/ In b (ec_all (norm_ec v e)) \/ exists x, In x rest /\ In b x.
Proof. exact header_chars. Qed.
Print Assumptions C07_header_only_these_separators.

(* ---- parsing the encoded message recovers exactly the set ----
   for ALL valid sets; `others` are the encoded segments after MSH and are unconstrained.
   Hypotheses: the set is textual (see above), the fields MSH-3.. contain neither CR nor the
   field separator, and - exactly when the truncation character is emitted - MSH-12 (the tenth
   element of rest) compares >= '2.7'. *)
Theorem C07_reparse : forall v e rest others,
  ec_wf e = true -> ec_textual e = true -> forallb (field_ok e) rest = true ->
  (trunc_part v e <> [] -> exists v12, nth_error rest 9 = Some v12 /\ ge_27 v12 = true) ->
  exists f1 f2 text,
    set_encoding_chars v (ecd_of_ec e) = Ok (f1, f2) /\
    message_to_er7 (mk_msg v f1 f2 rest) others = Ok text /\
    split_msh text = Ok (("MSH" : str) :: f2 :: rest, norm_ec v e).
Proof.
  intros v e rest others Hwf Htx Hrest Hver.
  destruct (bjoin_cons_shape CR (header_text v e rest) others) as [tail [Etail Htail]].
  exists [fsep e], (msh2_of v e), (header_text v e rest ++ tail).
  split; [exact (set_of_ec v e Hwf)|]. split.
  - unfold message_to_er7. rewrite msh_to_er7_of_set. cbn [bind]. now rewrite Etail.
  - apply split_msh_header; assumption.
Qed.
Print Assumptions C07_reparse.

(* the version hypothesis cannot be dropped: without MSH-12 >= '2.7' the five-character MSH-2
   is rejected *)
Theorem C07_reparse_needs_version : forall v e rest others,
  ec_wf e = true -> ec_textual e = true -> forallb (field_ok e) rest = true ->
  trunc_part v e <> [] ->
  (forall v12, nth_error rest 9 = Some v12 -> ge_27 v12 = false) ->
  exists text, message_to_er7 (mk_msg v [fsep e] (msh2_of v e) rest) others = Ok text /\
               split_msh text = Err (HL7 EInvalidEncodingChars).
Proof.
  intros v e rest others Hwf Htx Hrest Htr Hver.
  destruct (bjoin_cons_shape CR (header_text v e rest) others) as [tail [Etail Htail]].
  exists (header_text v e rest ++ tail). split.
  - unfold message_to_er7. rewrite msh_to_er7_of_set. cbn [bind]. now rewrite Etail.
  - apply split_msh_header_needs_version; assumption.
Qed.
Print Assumptions C07_reparse_needs_version.

(* a message built by the constructor satisfies the version hypothesis by itself, and the header
   functions give back the set and the version *)
Theorem C07_reparse_new_message : forall v e ts others,
  ec_wf e = true -> ec_textual e = true -> field_ok e ts = true -> field_ok e v = true ->
  nosep beqb (csep e) (strip v) = true ->
  exists m text, new_message v (ecd_of_ec e) ts = Ok m /\ message_to_er7 m others = Ok text /\
    (do '(_, e') <- split_msh text; Ok e') = Ok (norm_ec v e) /\
    (do '(e', _, v') <- get_message_info text; Ok (e', v')) = Ok (norm_ec v e, Some (strip v)).
Proof.
  intros v e ts others Hwf Htx Hts Hv Hc.
  set (rest := [[]; []; []; []; ts; []; []; []; []; v] : list str).
  assert (Hrest : forallb (field_ok e) rest = true).
  { unfold rest. cbn [forallb]. rewrite Hts, Hv. reflexivity. }
  assert (Hver : trunc_part v e <> [] -> exists v12, nth_error rest 9 = Some v12 /\ ge_27 v12 = true).
  { intros Ht. exists v. split; [reflexivity|]. unfold trunc_part in Ht.
    destruct (ge_27 v); [reflexivity|congruence]. }
  destruct (bjoin_cons_shape CR (header_text v e rest) others) as [tail [Etail Htail]].
  exists (mk_msg v [fsep e] (msh2_of v e) rest), (header_text v e rest ++ tail).
  split; [exact (new_message_of_ec v e ts Hwf)|]. split.
  { unfold message_to_er7. rewrite msh_to_er7_of_set. cbn [bind]. now rewrite Etail. }
  pose proof (split_msh_header v e rest tail Hwf Htx Hrest Htail Hver) as S.
  split.
  - rewrite S. reflexivity.
  - unfold get_message_info. rewrite S. cbn [bind]. unfold rest. cbn [nth_error].
    unfold norm_ec at 2. cbn [csep]. unfold bsplit, split.
    rewrite <- (app_nil_r (strip v)) at 1. rewrite split_aux_app by exact Hc. reflexivity.
Qed.
Print Assumptions C07_reparse_new_message.

(* ---- every descendant reads the root's encoding characters ---- *)
Theorem C07_inherit : forall dflt dflt27 m kids e,
  In e (message_descendants m kids) ->
  elem_encoding_chars dflt dflt27 e = msg_encoding_chars m.
Proof.
  intros dflt dflt27 m kids e H. rewrite elem_inherits.
  now rewrite (message_descendants_root m kids e H).
Qed.
Print Assumptions C07_inherit.

Theorem C07_inherit_new_message : forall dflt dflt27 v e0 ts kids e, ec_wf e0 = true ->
  exists m, new_message v (ecd_of_ec e0) ts = Ok m /\
  (In e (message_descendants m kids) ->
   elem_encoding_chars dflt dflt27 e = Ok (ecd_of_ec (norm_ec v e0))).
Proof.
  intros dflt dflt27 v e0 ts kids e H. eexists. split; [exact (new_message_of_ec v e0 ts H)|].
  intros Hin. rewrite (C07_inherit _ _ _ _ _ Hin). unfold msg_encoding_chars.
  cbn [m_version m_msh1 m_msh2]. apply get_of_set.
Qed.
Print Assumptions C07_inherit_new_message.

(* an element outside any message reads the process default of its version (Appendix C 12) *)
Theorem C07_orphan_default : forall dflt dflt27 v,
  elem_encoding_chars dflt dflt27 (EOrphan v) = Ok (if ge_27 v then dflt27 else dflt).
Proof. reflexivity. Qed.
Print Assumptions C07_orphan_default.

(* ---- invalid sets are rejected with InvalidEncodingChars ---- *)
Definition rejected_everywhere (d : ecdict) : Prop :=
  check_encoding_chars d = Err (HL7 EInvalidEncodingChars) /\
  set_default_encoding_chars d = Err (HL7 EInvalidEncodingChars) /\
  forall v ts, new_message v d ts = Err (HL7 EInvalidEncodingChars) /\
               forall m, msg_set_encoding_chars m d = Err (HL7 EInvalidEncodingChars).

Lemma rejected_of_check d : check_encoding_chars d = Err (HL7 EInvalidEncodingChars) -> rejected_everywhere d.
Proof.
  intros H. split; [exact H|]. split; [exact (set_default_rejects d H)|].
  intros v ts. split; [exact (new_message_rejects d v ts H)|].
  intros m. unfold msg_set_encoding_chars. now rewrite (set_rejects d _ H).
Qed.

Theorem C07_invalid_rejected :
  (* a required key is missing *)
  (forall d s, In s [FIELD; COMPONENT; SUBCOMPONENT; REPETITION; ESCAPE] -> dget d s = None ->
     rejected_everywhere d) /\
  (* two keys (TRUNCATION included) carry the same value *)
  (forall d s1 s2 x, s1 <> s2 -> dget d s1 = Some x -> dget d s2 = Some x -> rejected_everywhere d) /\
  (* parsed text: MSH-2 with a repeated character, white space, fewer than four or more than five
     characters *)
  (forall content fs seps, msh_field_sep content = Some fs ->
     nth_error (bsplit fs (first_line content)) 1 = Some seps ->
     nodupb beqb seps = false \/ existsb is_space seps = true \/ length seps < 4 \/ 5 < length seps ->
     split_msh content = Err (HL7 EInvalidEncodingChars)) /\
  (* parsed text: five characters without a version >= '2.7' in MSH-12 *)
  (forall content fs c r e s t, msh_field_sep content = Some fs ->
     nth_error (bsplit fs (first_line content)) 1 = Some [c; r; e; s; t] ->
     (forall v, nth_error (bsplit fs (first_line content)) 11 = Some v -> ge_27 v = false) ->
     split_msh content = Err (HL7 EInvalidEncodingChars)).
Proof.
  split; [|split; [|split]].
  - intros d s Hin Hs. apply rejected_of_check. exact (check_missing d s Hin Hs).
  - intros d s1 s2 x Hne H1 H2. apply rejected_of_check. exact (check_duplicate d s1 s2 x Hne H1 H2).
  - exact split_msh_rejects.
  - exact split_msh_rejects_five.
Qed.
Print Assumptions C07_invalid_rejected.

(* ... and nothing else is: single-character sets are accepted iff pairwise distinct, and the
   check knows no other failure *)
Theorem C07_check_exact : forall e,
  check_encoding_chars (ecd_of_ec e) = if ec_wf e then Ok tt else Err (HL7 EInvalidEncodingChars).
Proof. exact check_of_ec. Qed.
Print Assumptions C07_check_exact.

Theorem C07_check_total : forall d v,
  (check_encoding_chars d = Ok tt /\ exists p, set_encoding_chars v d = Ok p) \/
  check_encoding_chars d = Err (HL7 EInvalidEncodingChars).
Proof.
  intros d v. destruct (check_err_is_invalid d) as [H|H]; [left|now right].
  split; [exact H|exact (set_total d v H)].
Qed.
Print Assumptions C07_check_total.

(* ---- MLLP framing: SB, the ER7 text, CR, EB, CR ---- *)
Theorem C07_mllp : forall m others t, message_to_er7 m others = Ok t ->
  message_to_mllp m others = Ok (SB :: t ++ [CR; EB; CR]).
Proof. intros m others t H. unfold message_to_mllp. now rewrite H. Qed.
Print Assumptions C07_mllp.

(* ---- the generated defaults, on every supported version: valid, textual, read back ---- *)
Definition roundtrip_ok (v : str) (e : ec) : bool :=
  match new_message v (ecd_of_ec e) "20200101" with
  | Ok m =>
      match msg_encoding_chars m, message_to_er7 m [("PID|1" : str)] with
      | Ok d, Ok text =>
          ecdict_eqb d (ecd_of_ec (norm_ec v e)) &&
          match get_message_info text with
          | Ok (e', _, Some v') => ec_eqb e' (norm_ec v e) && streqb v' v
          | _ => false
          end
      | _, _ => false
      end
  | Err _ => false
  end.
Theorem C07_defaults_on_supported_versions :
  ec_wf default_ec = true /\ ec_wf default_ec_27 = true /\
  ec_textual default_ec = true /\ ec_textual default_ec_27 = true /\
  forallb (fun v => field_ok default_ec_27 v && roundtrip_ok v default_ec && roundtrip_ok v default_ec_27)
          supported_versions = true.
Proof. vm_compute. repeat split; reflexivity. Qed.
Print Assumptions C07_defaults_on_supported_versions.

(* ---- non-vacuity and the recorded domain restriction ---- *)
Example C07_example_header :
  (do m <- new_message "2.7" (ecd_of_ec (mk_ec "!" "@" "*" "?" "%" (Some "+"%byte))) "20200101"; msh_to_er7 m)
  = Ok ("MSH!@*?%+!!!!!20200101!!!!!2.7" : str) /\
  (do m <- new_message "2.5" (ecd_of_ec (mk_ec "!" "@" "*" "?" "%" (Some "+"%byte))) "20200101"; msh_to_er7 m)
  = Ok ("MSH!@*?%!!!!!20200101!!!!!2.5" : str).
Proof. vm_compute. split; reflexivity. Qed.

Example C07_example_hypotheses :
  let e := mk_ec "!" "@" "*" "?" "%" (Some "+"%byte) in
  ec_wf e = true /\ ec_textual e = true /\ field_ok e "20200101" = true /\ field_ok e "2.8.2" = true.
Proof. vm_compute. repeat split; reflexivity. Qed.

Example C07_example_rejected :
  check_encoding_chars (ecd_of_ec (mk_ec "|" "^" "~" "\" "&" (Some "^"%byte))) = Err (HL7 EInvalidEncodingChars) /\
  check_encoding_chars (mk_ecdict (Some ("|" : str)) (Some ("^" : str)) None (Some ("~" : str)) (Some ("\" : str)) None)
    = Err (HL7 EInvalidEncodingChars) /\
  split_msh ("MSH|^~\^|A" : str) = Err (HL7 EInvalidEncodingChars) /\
  split_msh ("MSH|^~\|A" : str) = Err (HL7 EInvalidEncodingChars) /\
  split_msh ("MSH|^~\ |A" : str) = Err (HL7 EInvalidEncodingChars) /\
  split_msh ("MSH|^~\&#|A|B|C|D|E|F|G|H|I|2.5" : str) = Err (HL7 EInvalidEncodingChars).
Proof. vm_compute. repeat split; reflexivity. Qed.

(* '.' as the field separator is outside the property's domain: the version text contains it, so
   field_ok fails and the header is read back with a different version *)
Example C07_dot_excluded :
  let e := mk_ec "." "^" "~" "\" "&" None in
  ec_wf e = true /\ ec_textual e = true /\ field_ok e "2.5" = false /\
  (do m <- new_message "2.5" (ecd_of_ec e) "20200101"; do t <- message_to_er7 m [];
   do '(_, _, v) <- get_message_info t; Ok v) = Ok (Some ("2" : str)).
Proof. vm_compute. repeat split; reflexivity. Qed.
