(* C15 - Bad input fails with the library's exceptions, never with a crash: HEADER PART.
   Theorems only; proofs live in Proofs/HeaderFacts.v; the model is Model/Header.v, where every
   partial Python operation (l[i], tuple unpacking) is an explicit `Err (Crash _)`.

   This file covers the header functions - _split_msh, get_message_type (on which the MLLP
   server routes) and get_message_info (the first thing parse_message calls, after lstrip) - for
   ALL strings.  The remaining clauses of the property (parse_message as a whole never leaks
   IndexError/KeyError/TypeError/AttributeError and raises ValueError only under STRICT; to_er7()
   succeeds and validate(return_errors=True) returns a report for every message that parsed)
   need the tree parser / encoder / validator models and will be added here as
   C15_parse_no_crash, C15_encode_total and C15_validate_total when those models exist; until
   then they are decided by the implementation-side oracle of harness/c15.py only. *)
From Coq Require Import List Bool Arith NArith Init.Byte.
From HL7 Require Import Lib.Str Model.Ec Model.Result Model.Header Proofs.HeaderFacts.
Import ListNotations.
Open Scope bs_scope.
Open Scope res_scope.

(* _split_msh returns, or raises ParserError or InvalidEncodingChars: never a crash *)
Theorem C15_header_total : forall s : str,
  (exists x, split_msh s = Ok x) \/
  split_msh s = Err (HL7 EParserError) \/ split_msh s = Err (HL7 EInvalidEncodingChars).
Proof. exact split_msh_total. Qed.
Print Assumptions C15_header_total.

Theorem C15_header_never_crashes : forall (s : str) k,
  split_msh s <> Err (Crash k) /\ split_msh s <> Err OutOfFuel /\ split_msh s <> Err PyValueError.
Proof.
  intros s k. destruct (split_msh_total s) as [[x ->]|[->| ->]]; repeat split; discriminate.
Qed.
Print Assumptions C15_header_never_crashes.

(* MSH-2 is always there once the text starts with MSH and a non-blank character: the index
   fields[1] of _split_msh cannot fail *)
Theorem C15_msh2_exists : forall (s : str) fs, msh_field_sep s = Some fs ->
  exists seps, nth_str (bsplit fs (first_line s)) 1 = Ok seps.
Proof. exact field1_exists. Qed.
Print Assumptions C15_msh2_exists.

Theorem C15_get_message_type_no_crash : forall s : str,
  (exists x, get_message_type s = Ok x) \/
  get_message_type s = Err (HL7 EParserError) \/ get_message_type s = Err (HL7 EInvalidEncodingChars).
Proof. exact get_message_type_total. Qed.
Print Assumptions C15_get_message_type_no_crash.

Theorem C15_get_message_info_no_crash : forall s : str,
  (exists x, get_message_info s = Ok x) \/
  get_message_info s = Err (HL7 EParserError) \/ get_message_info s = Err (HL7 EInvalidEncodingChars).
Proof. exact get_message_info_total. Qed.
Print Assumptions C15_get_message_info_no_crash.

(* the first step of parse_message: message.lstrip() then get_message_info *)
Theorem C15_parse_message_header_no_crash : forall s : str,
  (exists x, get_message_info (lstrip s) = Ok x) \/
  get_message_info (lstrip s) = Err (HL7 EParserError) \/
  get_message_info (lstrip s) = Err (HL7 EInvalidEncodingChars).
Proof. intros s. exact (get_message_info_total (lstrip s)). Qed.
Print Assumptions C15_parse_message_header_no_crash.

(* the three functions fail together and for the same reason *)
Theorem C15_header_functions_agree : forall s : str,
  outcome_code (get_message_type s) = outcome_code (split_msh s) /\
  outcome_code (get_message_info s) = outcome_code (split_msh s).
Proof.
  intros s. unfold get_message_type, get_message_info.
  destruct (split_msh s) as [[fields e]|x]; split; reflexivity.
Qed.
Print Assumptions C15_header_functions_agree.

(* ---- witnesses: the outcomes on the inputs that crashed the pinned tree (F11) and friends ---- *)
Example C15_examples :
  split_msh ("MSH|^~\&#|A" : str) = Err (HL7 EInvalidEncodingChars) /\      (* was IndexError *)
  get_message_type ("MSH|^~\&#|A" : str) = Err (HL7 EInvalidEncodingChars) /\
  get_message_type ("MSH|^~\&" : str) = Ok None /\
  get_message_type ("MSH|^~\ " : str) = Err (HL7 EInvalidEncodingChars) /\   (* parsed, then to_er7 crashed *)
  get_message_type (("MSH|MSH" : str) ++ [x09]) = Err (HL7 EInvalidEncodingChars) /\
  get_message_type ("MSH|" : str) = Err (HL7 EInvalidEncodingChars) /\
  get_message_type ("MSH" : str) = Err (HL7 EParserError) /\
  get_message_type ("MSH " : str) = Err (HL7 EParserError) /\
  get_message_type (@nil byte) = Err (HL7 EParserError) /\
  get_message_type ("MSHMSH" : str) = Err (HL7 EInvalidEncodingChars) /\
  get_message_type ("MSH|^~\&|||||||ADT^A01 " : str) = Ok (Some ("ADT^A01" : str)) /\
  get_message_info ("MSH|^~\&|||||||ADT^A01|||2.5" : str) =
    Ok (mk_ec "|" "^" "~" "\" "&" None, Some ("ADT_A01" : str), Some ("2.5" : str)) /\
  get_message_info ("MSH|^~\&#|||||||ADT^A01^ADT_A01|||2.7^x" : str) =
    Ok (mk_ec "|" "^" "~" "\" "&" (Some "#"%byte), Some ("ADT_A01" : str), Some ("2.7" : str)) /\
  get_message_info ("MSH|^~\&|||||||ADT" : str) = Ok (mk_ec "|" "^" "~" "\" "&" None, None, None).
Proof. vm_compute. repeat split; reflexivity. Qed.

(* ============================================================================================ *)
(* SEGMENT LEVEL: the tree parser (Model/Tree.v, Model/Parser.v) and the encoder (Model/Encode.v).
   In these models every l[i], d[k], tuple unpacking, int(...) and attribute access on None of
   core.py / parser.py is an explicit Err (Crash _) / Err PyValueError.  The theorems say that none
   of them is reachable from parse_segment(text, version=v, validation_level=lvl,
   encoding_chars=e) and from to_er7() of its result: for EVERY text (no bound), every shipped
   version, both validation levels, every delimiter set.  With Model/Leaf.v's leaf layer (which
   never raises ValueError) the outcome is a Segment or an HL7apyException.
   Proofs: Proofs/NoCrash.v (semantic invariant `ref_ok` on the references handed around) and
   Proofs/NoCrashTables.v (the invariant follows from Oblig/WfAll.v for the shipped tables). *)
From HL7 Require Import Model.Ref Model.Tree Model.Parser Model.Encode Model.Leaf Gen.Params Gen.Tables
     Proofs.NoCrash Proofs.NoCrashTables.

Theorem C15_parse_segment_no_crash : forall v t lvl e (text : str), tables_of v = Some t ->
  (exists s, parse_segment t lvl e (leaf_enc v lvl e) text None = Ok s) \/
  (exists c, parse_segment t lvl e (leaf_enc v lvl e) text None = Err (HL7 c)).
Proof.
  intros v t lvl e text Ht.
  destruct (sp_cases _ _ (shipped_parse_segment_safe v t lvl e text Ht)) as [[s [H _]]|[c H]]; eauto.
Qed.
Print Assumptions C15_parse_segment_no_crash.

Theorem C15_parse_segment_never_crashes : forall v t lvl e (text : str) k, tables_of v = Some t ->
  parse_segment t lvl e (leaf_enc v lvl e) text None <> Err (Crash k) /\
  parse_segment t lvl e (leaf_enc v lvl e) text None <> Err OutOfFuel /\
  parse_segment t lvl e (leaf_enc v lvl e) text None <> Err PyValueError.
Proof.
  intros v t lvl e text k Ht.
  destruct (C15_parse_segment_no_crash v t lvl e text Ht) as [[s ->]|[c ->]]; repeat split; discriminate.
Qed.
Print Assumptions C15_parse_segment_never_crashes.

(* to_er7() of every segment that parsed succeeds - under any delimiter set e', with and without
   trailing children *)
Theorem C15_enc_segment_total : forall v t lvl e (text : str) s e' trailing, tables_of v = Some t ->
  parse_segment t lvl e (leaf_enc v lvl e) text None = Ok s ->
  exists x, enc_segment t e' s trailing = Ok x.
Proof.
  intros v t lvl e text s e' trailing Ht H.
  exact (sp_inv _ _ s (shipped_parse_segment_safe v t lvl e text Ht) H e' trailing).
Qed.
Print Assumptions C15_enc_segment_total.

(* the same for ANY tables satisfying the semantic premises (custom references / profiles):
   the statement does not depend on the shipped data *)
Theorem C15_parse_segment_no_crash_general : forall t lvl e leaf (text : str),
  base t (Some (unbs "ST")) = true ->
  (forall n r, slookup n (t_fields t) = Some r -> ref_ok t r) ->
  (forall n r, slookup n (t_components t) = Some r -> ref_ok t r) ->
  (forall n r, length n <= 3 -> slookup n (t_segments t) = Some r -> seg_good t n r) ->
  (forall dt s, sp TT (leaf dt s)) ->
  sp (fun s => forall e' trailing, exists x, enc_segment t e' s trailing = Ok x)
     (parse_segment t lvl e leaf text None).
Proof. intros t lvl e leaf text H1 H2 H3 H4 H5. exact (parse_segment_safe t H1 H2 H3 H4 lvl e leaf H5 text). Qed.
Print Assumptions C15_parse_segment_no_crash_general.

(* the hypotheses are satisfiable, and the outcomes on some awkward lines *)
Example C15_segment_examples :
  tables_of "2.5" = Some Gen.Tables_v2_5.tables /\
  (let P lvl (s : str) := parse_segment Gen.Tables_v2_5.tables lvl default_ec (leaf_enc "2.5" lvl default_ec) s None in
   outcome_code (P STRICT "PID|1^2") = 6 /\ outcome_code (P TOLERANT "PID|1^2") = 0 /\
   outcome_code (P STRICT "MS") = 3 /\ outcome_code (P TOLERANT "") = 3 /\
   outcome_code (P STRICT "pid|1") = 0 /\ outcome_code (P TOLERANT "zab|a^b&c~d") = 0 /\
   outcome_code (P STRICT "OBX|1|CE|a^b^c^d^e^f^g^h") = 3 /\ outcome_code (P TOLERANT "OBX|1|CE|a^b^c^d^e^f^g^h") = 0 /\
   outcome_code (P TOLERANT "MSH") = 0 /\
   match P TOLERANT "PID|1^2||x~y" with
   | Ok s => enc_segment Gen.Tables_v2_5.tables default_ec s false = Ok (unbs "PID|1^2||x~y")
   | Err _ => False
   end).
Proof. vm_compute. repeat split; reflexivity. Qed.

(* parse_field / parse_component called directly on any text (standard references): same guarantee;
   for parse_component the datatype argument is None or a base datatype, as parse_components passes *)
Theorem C15_parse_field_no_crash : forall v t lvl e (text : str) name force_varies, tables_of v = Some t ->
  (exists f, parse_field t lvl e (leaf_enc v lvl e) text name None force_varies = Ok f /\
             forall e', exists x, enc_field t e' f = Ok x) \/
  (exists c, parse_field t lvl e (leaf_enc v lvl e) text name None force_varies = Err (HL7 c)).
Proof.
  intros v t lvl e text name fv Ht.
  exact (sp_cases _ _ (shipped_parse_field_safe v t lvl e text name fv Ht)).
Qed.
Print Assumptions C15_parse_field_no_crash.

Theorem C15_parse_component_no_crash : forall v t lvl e (text : str) name datatype, tables_of v = Some t ->
  datatype = None \/ base t datatype = true ->
  (exists c, parse_component t lvl e (leaf_enc v lvl e) text name datatype None = Ok c) \/
  (exists c, parse_component t lvl e (leaf_enc v lvl e) text name datatype None = Err (HL7 c)).
Proof.
  intros v t lvl e text name dt Ht Hd.
  destruct (sp_cases _ _ (shipped_parse_component_safe v t lvl e text name dt Ht Hd)) as [[c [H _]]|[c H]]; eauto.
Qed.
Print Assumptions C15_parse_component_no_crash.
