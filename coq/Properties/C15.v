(* C15 - Bad input fails with the library's exceptions, never with a crash: HEADER PART.
   Theorems only; proofs live in Proofs/HeaderFacts.v; the model is Model/Header.v, where every
   partial Python operation (l[i], tuple unpacking) is an explicit `Err (Crash _)`.

   This file covers the header functions - _split_msh, get_message_type (on which the MLLP
   server routes) and get_message_info (the first thing parse_message calls, after lstrip) - for
   ALL strings.  The remaining clauses of the property (parse_message as a whole never leaks
   IndexError/KeyError/TypeError/AttributeError and raises ValueError only under STRICT; to_er7()
   succeeds and validate(return_errors=True) returns a report for every message that parsed)
   need the tree parser / encoder / validator models and will be added here as
   C15_parse_no_crash, C15_encode_total and C15_validate_total when those models exist; until
   then they are decided by the implementation-side oracle of harness/c15.py only. *)
From Coq Require Import List Bool Arith NArith Init.Byte.
From HL7 Require Import Lib.Str Model.Ec Model.Result Model.Header Proofs.HeaderFacts.
Import ListNotations.
Open Scope bs_scope.
Open Scope res_scope.

(* _split_msh returns, or raises ParserError or InvalidEncodingChars: never a crash *)
Theorem C15_header_total : forall s : str,
  (exists x, split_msh s = Ok x) \/
  split_msh s = Err (HL7 EParserError) \/ split_msh s = Err (HL7 EInvalidEncodingChars).
Proof. exact split_msh_total. Qed.
Print Assumptions C15_header_total.

Theorem C15_header_never_crashes : forall (s : str) k,
  split_msh s <> Err (Crash k) /\ split_msh s <> Err OutOfFuel /\ split_msh s <> Err PyValueError.
Proof.
  intros s k. destruct (split_msh_total s) as [[x ->]|[->| ->]]; repeat split; discriminate.
Qed.
Print Assumptions C15_header_never_crashes.

(* MSH-2 is always there once the text starts with MSH and a non-blank character: the index
   fields[1] of _split_msh cannot fail *)
Theorem C15_msh2_exists : forall (s : str) fs, msh_field_sep s = Some fs ->
  exists seps, nth_str (bsplit fs (first_line s)) 1 = Ok seps.
Proof. exact field1_exists. Qed.
Print Assumptions C15_msh2_exists.

Theorem C15_get_message_type_no_crash : forall s : str,
  (exists x, get_message_type s = Ok x) \/
  get_message_type s = Err (HL7 EParserError) \/ get_message_type s = Err (HL7 EInvalidEncodingChars).
Proof. exact get_message_type_total. Qed.
Print Assumptions C15_get_message_type_no_crash.

Theorem C15_get_message_info_no_crash : forall s : str,
  (exists x, get_message_info s = Ok x) \/
  get_message_info s = Err (HL7 EParserError) \/ get_message_info s = Err (HL7 EInvalidEncodingChars).
Proof. exact get_message_info_total. Qed.
Print Assumptions C15_get_message_info_no_crash.

(* the first step of parse_message: message.lstrip() then get_message_info *)
Theorem C15_parse_message_header_no_crash : forall s : str,
  (exists x, get_message_info (lstrip s) = Ok x) \/
  get_message_info (lstrip s) = Err (HL7 EParserError) \/
  get_message_info (lstrip s) = Err (HL7 EInvalidEncodingChars).
Proof. intros s. exact (get_message_info_total (lstrip s)). Qed.
Print Assumptions C15_parse_message_header_no_crash.

(* the three functions fail together and for the same reason *)
Theorem C15_header_functions_agree : forall s : str,
  outcome_code (get_message_type s) = outcome_code (split_msh s) /\
  outcome_code (get_message_info s) = outcome_code (split_msh s).
Proof.
  intros s. unfold get_message_type, get_message_info.
  destruct (split_msh s) as [[fields e]|x]; split; reflexivity.
Qed.
Print Assumptions C15_header_functions_agree.

(* ---- witnesses: the outcomes on the inputs that crashed the pinned tree (F11) and friends ---- *)
Example C15_examples :
  split_msh ("MSH|^~\&#|A" : str) = Err (HL7 EInvalidEncodingChars) /\      (* was IndexError *)
  get_message_type ("MSH|^~\&#|A" : str) = Err (HL7 EInvalidEncodingChars) /\
  get_message_type ("MSH|^~\&" : str) = Ok None /\
  get_message_type ("MSH|^~\ " : str) = Err (HL7 EInvalidEncodingChars) /\   (* parsed, then to_er7 crashed *)
  get_message_type (("MSH|MSH" : str) ++ [x09]) = Err (HL7 EInvalidEncodingChars) /\
  get_message_type ("MSH|" : str) = Err (HL7 EInvalidEncodingChars) /\
  get_message_type ("MSH" : str) = Err (HL7 EParserError) /\
  get_message_type ("MSH " : str) = Err (HL7 EParserError) /\
  get_message_type (@nil byte) = Err (HL7 EParserError) /\
  get_message_type ("MSHMSH" : str) = Err (HL7 EInvalidEncodingChars) /\
  get_message_type ("MSH|^~\&|||||||ADT^A01 " : str) = Ok (Some ("ADT^A01" : str)) /\
  get_message_info ("MSH|^~\&|||||||ADT^A01|||2.5" : str) =
    Ok (mk_ec "|" "^" "~" "\" "&" None, Some ("ADT_A01" : str), Some ("2.5" : str)) /\
  get_message_info ("MSH|^~\&#|||||||ADT^A01^ADT_A01|||2.7^x" : str) =
    Ok (mk_ec "|" "^" "~" "\" "&" (Some "#"%byte), Some ("ADT_A01" : str), Some ("2.7" : str)) /\
  get_message_info ("MSH|^~\&|||||||ADT" : str) = Ok (mk_ec "|" "^" "~" "\" "&" None, None, None).
Proof. vm_compute. repeat split; reflexivity. Qed.
