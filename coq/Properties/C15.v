(* C15 - Bad input fails with the library's exceptions, never with a crash: HEADER PART.
   Theorems only; proofs live in Proofs/HeaderFacts.v; the model is Model/Header.v, where every
   partial Python operation (l[i], tuple unpacking) is an explicit `Err (Crash _)`.

   This file covers the header functions - _split_msh, get_message_type (on which the MLLP
   server routes) and get_message_info (the first thing parse_message calls, after lstrip) - for
   ALL strings.  The remaining clauses of the property (parse_message as a whole never leaks
   IndexError/KeyError/TypeError/AttributeError and raises ValueError only under STRICT; to_er7()
   succeeds and validate(return_errors=True) returns a report for every message that parsed)
   need the tree parser / encoder / validator models and will be added here as
   C15_parse_no_crash, C15_encode_total and C15_validate_total when those models exist; until
   then they are decided by the implementation-side oracle of harness/c15.py only. *)
From Coq Require Import List Bool Arith NArith Init.Byte.
From HL7 Require Import Lib.Str Model.Ec Model.Result Model.Header Proofs.HeaderFacts.
Import ListNotations.
Open Scope bs_scope.
Open Scope res_scope.

(* _split_msh returns, or raises ParserError or InvalidEncodingChars: never a crash *)
Theorem C15_header_total : forall s : str,
  (exists x, split_msh s = Ok x) \/
  split_msh s = Err (HL7 EParserError) \/ split_msh s = Err (HL7 EInvalidEncodingChars).
Proof. exact split_msh_total. Qed.
Print Assumptions C15_header_total.

Theorem C15_header_never_crashes : forall (s : str) k,
  split_msh s <> Err (Crash k) /\ split_msh s <> Err OutOfFuel /\ split_msh s <> Err PyValueError.
Proof.
  intros s k. destruct (split_msh_total s) as [[x ->]|[->| ->]]; repeat split; discriminate.
Qed.
Print Assumptions C15_header_never_crashes.

(* MSH-2 is always there once the text starts with MSH and a non-blank character: the index
   fields[1] of _split_msh cannot fail *)
Theorem C15_msh2_exists : forall (s : str) fs, msh_field_sep s = Some fs ->
  exists seps, nth_str (bsplit fs (first_line s)) 1 = Ok seps.
Proof. exact field1_exists. Qed.
Print Assumptions C15_msh2_exists.

Theorem C15_get_message_type_no_crash : forall s : str,
  (exists x, get_message_type s = Ok x) \/
  get_message_type s = Err (HL7 EParserError) \/ get_message_type s = Err (HL7 EInvalidEncodingChars).
Proof. exact get_message_type_total. Qed.
Print Assumptions C15_get_message_type_no_crash.

Theorem C15_get_message_info_no_crash : forall s : str,
  (exists x, get_message_info s = Ok x) \/
  get_message_info s = Err (HL7 EParserError) \/ get_message_info s = Err (HL7 EInvalidEncodingChars).
Proof. exact get_message_info_total. Qed.
Print Assumptions C15_get_message_info_no_crash.

(* the first step of parse_message: message.lstrip() then get_message_info *)
Theorem C15_parse_message_header_no_crash : forall s : str,
  (exists x, get_message_info (lstrip s) = Ok x) \/
  get_message_info (lstrip s) = Err (HL7 EParserError) \/
  get_message_info (lstrip s) = Err (HL7 EInvalidEncodingChars).
Proof. intros s. exact (get_message_info_total (lstrip s)). Qed.
Print Assumptions C15_parse_message_header_no_crash.

(* the three functions fail together and for the same reason *)
Theorem C15_header_functions_agree : forall s : str,
  outcome_code (get_message_type s) = outcome_code (split_msh s) /\
  outcome_code (get_message_info s) = outcome_code (split_msh s).
Proof.
  intros s. unfold get_message_type, get_message_info.
  destruct (split_msh s) as [[fields e]|x]; split; reflexivity.
Qed.
Print Assumptions C15_header_functions_agree.

(* ---- witnesses: the outcomes on the inputs that crashed the pinned tree (F11) and friends ---- *)
Example C15_examples :
  split_msh ("MSH|^~\&#|A" : str) = Err (HL7 EInvalidEncodingChars) /\      (* was IndexError *)
  get_message_type ("MSH|^~\&#|A" : str) = Err (HL7 EInvalidEncodingChars) /\
  get_message_type ("MSH|^~\&" : str) = Ok None /\
  get_message_type ("MSH|^~\ " : str) = Err (HL7 EInvalidEncodingChars) /\   (* parsed, then to_er7 crashed *)
  get_message_type (("MSH|MSH" : str) ++ [x09]) = Err (HL7 EInvalidEncodingChars) /\
  get_message_type ("MSH|" : str) = Err (HL7 EInvalidEncodingChars) /\
  get_message_type ("MSH" : str) = Err (HL7 EParserError) /\
  get_message_type ("MSH " : str) = Err (HL7 EParserError) /\
  get_message_type (@nil byte) = Err (HL7 EParserError) /\
  get_message_type ("MSHMSH" : str) = Err (HL7 EInvalidEncodingChars) /\
  get_message_type ("MSH|^~\&|||||||ADT^A01 " : str) = Ok (Some ("ADT^A01" : str)) /\
  get_message_info ("MSH|^~\&|||||||ADT^A01|||2.5" : str) =
    Ok (mk_ec "|" "^" "~" "\" "&" None, Some ("ADT_A01" : str), Some ("2.5" : str)) /\
  get_message_info ("MSH|^~\&#|||||||ADT^A01^ADT_A01|||2.7^x" : str) =
    Ok (mk_ec "|" "^" "~" "\" "&" (Some "#"%byte), Some ("ADT_A01" : str), Some ("2.7" : str)) /\
  get_message_info ("MSH|^~\&|||||||ADT" : str) = Ok (mk_ec "|" "^" "~" "\" "&" None, None, None).
Proof. vm_compute. repeat split; reflexivity. Qed.

(* ============================================================================================ *)
(* SEGMENT LEVEL: the tree parser (Model/Tree.v, Model/Parser.v) and the encoder (Model/Encode.v).
   In these models every l[i], d[k], tuple unpacking, int(...) and attribute access on None of
   core.py / parser.py is an explicit Err (Crash _) / Err PyValueError.  The theorems say that none
   of them is reachable from parse_segment(text, version=v, validation_level=lvl,
   encoding_chars=e) and from to_er7() of its result: for EVERY text (no bound), every shipped
   version, both validation levels, every delimiter set, and ANY leaf function (datatype factory +
   to_er7 of the value): whatever the parser raises is one of the library's exceptions or was
   raised by the leaf function itself.  With a leaf layer that raises ValueError only under STRICT
   (Model/LeafFull.v's shape) this is the property text; with Model/Leaf.v (never ValueError) the
   outcome is a Segment or an HL7apyException.
   Proofs: Proofs/NoCrash.v (semantic invariant `ref_ok` on the references handed around) and
   Proofs/NoCrashTables.v (the invariant follows from Oblig/WfAll.v for the shipped tables). *)
From HL7 Require Import Model.Ref Model.Tree Model.Parser Model.Encode Model.Leaf Gen.Params Gen.Tables
     Proofs.NoCrash Proofs.NoCrashTables.

(* the property text, for an arbitrary leaf function: a result, an HL7apyException, or - under
   STRICT only - the ValueError of the leaf function; never IndexError / KeyError / TypeError /
   AttributeError; and every Segment that parsed can be encoded *)
Theorem C15_parse_segment_no_crash_any_leaf : forall v t lvl e leaf (text : str), tables_of v = Some t ->
  (forall dt s, sp (hl7_or_value lvl) TT (leaf dt s)) ->
  (exists s, parse_segment t lvl e leaf text None = Ok s /\
             forall e' trailing, exists x, enc_segment t e' s trailing = Ok x) \/
  (exists c, parse_segment t lvl e leaf text None = Err (HL7 c)) \/
  (parse_segment t lvl e leaf text None = Err PyValueError /\ lvl = STRICT).
Proof.
  intros v t lvl e leaf text Ht Hl.
  exact (sp_value_cases lvl _ _
           (shipped_parse_segment_safe_gen (hl7_or_value lvl) v t lvl e leaf text (hl7_or_value_hl7 lvl) Hl Ht)).
Qed.
Print Assumptions C15_parse_segment_no_crash_any_leaf.

(* the most general form: Adm = the exceptions the leaf function may raise *)
Theorem C15_parse_segment_leaf_exceptions_only : forall (Adm : exn -> Prop) v t lvl e leaf (text : str),
  tables_of v = Some t -> (forall c, Adm (HL7 c)) ->
  (forall dt s, match leaf dt s with Ok _ => True | Err x => Adm x end) ->
  match parse_segment t lvl e leaf text None with
  | Ok s => forall e' trailing, exists x, enc_segment t e' s trailing = Ok x
  | Err x => Adm x
  end.
Proof.
  intros Adm v t lvl e leaf text Ht HA Hl.
  exact (shipped_parse_segment_safe_gen Adm v t lvl e leaf text HA Hl Ht).
Qed.
Print Assumptions C15_parse_segment_leaf_exceptions_only.

(* with Model/Leaf.v *)
Theorem C15_parse_segment_no_crash : forall v t lvl e (text : str), tables_of v = Some t ->
  (exists s, parse_segment t lvl e (leaf_enc v lvl e) text None = Ok s) \/
  (exists c, parse_segment t lvl e (leaf_enc v lvl e) text None = Err (HL7 c)).
Proof.
  intros v t lvl e text Ht.
  destruct (sp_hl7_cases _ _ (shipped_parse_segment_safe v t lvl e text Ht)) as [[s [H _]]|[c H]]; eauto.
Qed.
Print Assumptions C15_parse_segment_no_crash.

Theorem C15_parse_segment_never_crashes : forall v t lvl e (text : str) k, tables_of v = Some t ->
  parse_segment t lvl e (leaf_enc v lvl e) text None <> Err (Crash k) /\
  parse_segment t lvl e (leaf_enc v lvl e) text None <> Err OutOfFuel /\
  parse_segment t lvl e (leaf_enc v lvl e) text None <> Err PyValueError.
Proof.
  intros v t lvl e text k Ht.
  destruct (C15_parse_segment_no_crash v t lvl e text Ht) as [[s ->]|[c ->]]; repeat split; discriminate.
Qed.
Print Assumptions C15_parse_segment_never_crashes.

(* to_er7() of every segment that parsed succeeds - under any delimiter set e', with and without
   trailing children *)
Theorem C15_enc_segment_total : forall v t lvl e (text : str) s e' trailing, tables_of v = Some t ->
  parse_segment t lvl e (leaf_enc v lvl e) text None = Ok s ->
  exists x, enc_segment t e' s trailing = Ok x.
Proof.
  intros v t lvl e text s e' trailing Ht H.
  exact (sp_inv _ _ _ s (shipped_parse_segment_safe v t lvl e text Ht) H e' trailing).
Qed.
Print Assumptions C15_enc_segment_total.

(* the same for ANY tables satisfying the semantic premises (custom tables): the statement does not
   depend on the shipped data *)
Theorem C15_parse_segment_no_crash_general : forall (Adm : exn -> Prop) t lvl e leaf (text : str),
  (forall c, Adm (HL7 c)) ->
  base t (Some (unbs "ST")) = true ->
  (forall n r, slookup n (t_fields t) = Some r -> ref_ok t r) ->
  (forall n r, slookup n (t_components t) = Some r -> ref_ok t r) ->
  (forall n r, length n <= 3 -> slookup n (t_segments t) = Some r -> seg_good t n r) ->
  (forall dt s, sp Adm TT (leaf dt s)) ->
  sp Adm (fun s => forall e' trailing, exists x, enc_segment t e' s trailing = Ok x)
     (parse_segment t lvl e leaf text None).
Proof. intros Adm t lvl e leaf text HA H1 H2 H3 H4 H5. exact (parse_segment_safe Adm HA t H1 H2 H3 H4 lvl e leaf H5 text). Qed.
Print Assumptions C15_parse_segment_no_crash_general.

(* parse_field / parse_component called directly on any text (standard references): same guarantee;
   for parse_component the datatype argument is None or a base datatype, as parse_components passes *)
Theorem C15_parse_field_no_crash : forall v t lvl e leaf (text : str) name force_varies, tables_of v = Some t ->
  (forall dt s, sp (hl7_or_value lvl) TT (leaf dt s)) ->
  (exists f, parse_field t lvl e leaf text name None force_varies = Ok f /\
             forall e', exists x, enc_field t e' f = Ok x) \/
  (exists c, parse_field t lvl e leaf text name None force_varies = Err (HL7 c)) \/
  (parse_field t lvl e leaf text name None force_varies = Err PyValueError /\ lvl = STRICT).
Proof.
  intros v t lvl e leaf text name fv Ht Hl.
  exact (sp_value_cases lvl _ _
           (shipped_parse_field_safe_gen (hl7_or_value lvl) v t lvl e leaf text name fv (hl7_or_value_hl7 lvl) Hl Ht)).
Qed.
Print Assumptions C15_parse_field_no_crash.

Theorem C15_parse_component_no_crash : forall v t lvl e leaf (text : str) name datatype, tables_of v = Some t ->
  (forall dt s, sp (hl7_or_value lvl) TT (leaf dt s)) ->
  datatype = None \/ base t datatype = true ->
  (exists c, parse_component t lvl e leaf text name datatype None = Ok c) \/
  (exists c, parse_component t lvl e leaf text name datatype None = Err (HL7 c)) \/
  (parse_component t lvl e leaf text name datatype None = Err PyValueError /\ lvl = STRICT).
Proof.
  intros v t lvl e leaf text name dt Ht Hl Hd.
  destruct (sp_value_cases lvl _ _
           (shipped_parse_component_safe_gen (hl7_or_value lvl) v t lvl e leaf text name dt (hl7_or_value_hl7 lvl) Hl Ht Hd))
    as [[c [H _]]|H]; eauto.
Qed.
Print Assumptions C15_parse_component_no_crash.

(* the hypotheses are satisfiable (the leaf premise holds of Model/Leaf.v at both levels), and the
   outcomes on some awkward lines *)
Example C15_leaf_premise : forall v lvl e dt s, sp (hl7_or_value lvl) TT (leaf_enc v lvl e dt s).
Proof.
  intros v lvl e dt s. pose proof (leaf_enc_safe v lvl e dt s) as H.
  destruct (leaf_enc v lvl e dt s) as [a|[c| |k|]]; cbn in *; tauto.
Qed.

Example C15_segment_examples :
  tables_of "2.5" = Some Gen.Tables_v2_5.tables /\
  (let P lvl (s : str) := parse_segment Gen.Tables_v2_5.tables lvl default_ec (leaf_enc "2.5" lvl default_ec) s None in
   outcome_code (P STRICT "PID|1^2") = 6 /\ outcome_code (P TOLERANT "PID|1^2") = 0 /\
   outcome_code (P STRICT "MS") = 3 /\ outcome_code (P TOLERANT "") = 3 /\
   outcome_code (P STRICT "pid|1") = 0 /\ outcome_code (P TOLERANT "zab|a^b&c~d") = 0 /\
   outcome_code (P STRICT "OBX|1|CE|a^b^c^d^e^f^g^h") = 3 /\ outcome_code (P TOLERANT "OBX|1|CE|a^b^c^d^e^f^g^h") = 0 /\
   outcome_code (P TOLERANT "MSH") = 0 /\
   match P TOLERANT "PID|1^2||x~y" with
   | Ok s => enc_segment Gen.Tables_v2_5.tables default_ec s false = Ok (unbs "PID|1^2||x~y")
   | Err _ => False
   end).
Proof. vm_compute. repeat split; reflexivity. Qed.

(* ---- the property text with the C13 datatype factories plugged into the leaves (Model/LeafFull.v):
   parse_segment returns a Segment (which to_er7() encodes), raises an HL7apyException, or - under
   STRICT only - the ValueError of a value invalid for its datatype; nothing else ---- *)
From HL7 Require Import Model.LeafFull Proofs.NoCrashLeafFull.
Theorem C15_leaf_full_no_crash : forall v lvl e dt s, sp (hl7_or_value lvl) TT (leaf_enc_full v lvl e dt s).
Proof. exact leaf_enc_full_safe. Qed.
Print Assumptions C15_leaf_full_no_crash.

Theorem C15_parse_segment_no_crash_full_leaf : forall v t lvl e (text : str), tables_of v = Some t ->
  (exists s, parse_segment t lvl e (leaf_enc_full v lvl e) text None = Ok s /\
             forall e' trailing, exists x, enc_segment t e' s trailing = Ok x) \/
  (exists c, parse_segment t lvl e (leaf_enc_full v lvl e) text None = Err (HL7 c)) \/
  (parse_segment t lvl e (leaf_enc_full v lvl e) text None = Err PyValueError /\ lvl = STRICT).
Proof.
  intros v t lvl e text Ht.
  exact (C15_parse_segment_no_crash_any_leaf v t lvl e (leaf_enc_full v lvl e) text Ht (leaf_enc_full_safe v lvl e)).
Qed.
Print Assumptions C15_parse_segment_no_crash_full_leaf.

(* ValueError really occurs under STRICT, and only there *)
Example C15_strict_value_error :
  parse_segment Gen.Tables_v2_5.tables STRICT default_ec (leaf_enc_full "2.5" STRICT default_ec) "PID|||||||2020x" None = Err PyValueError /\
  outcome_code (parse_segment Gen.Tables_v2_5.tables TOLERANT default_ec (leaf_enc_full "2.5" TOLERANT default_ec) "PID|||||||2020x" None) = 0.
Proof. vm_compute. split; reflexivity. Qed.

(* ============================================================================================ *)
(* MESSAGE LEVEL, flat path: parse_message(text, validation_level=lvl, find_groups=False) with the
   shipped libraries (Model/Message.v; the version is read from MSH-12, `dflt` when absent) returns
   a Message or raises one of the library's exceptions - for EVERY text.  Proof:
   Proofs/NoCrashMsg.v (header totality + Message constructor + the segment-level theorem for
   every line + Message.add).  The grouped path (find_groups=True, the default) goes through the
   group search of Model/Groups.v and is not covered by a theorem (oracle only). *)
From HL7 Require Import Model.MsgTree Model.Message Proofs.NoCrashMsg.

Theorem C15_parse_message_flat_no_crash : forall dflt lvl (text : str),
  (exists r, parse_message tables_of dflt lvl false text = Ok r) \/
  (exists c, parse_message tables_of dflt lvl false text = Err (HL7 c)).
Proof.
  intros dflt lvl text.
  destruct (sp_hl7_cases _ _ (parse_message_flat_safe dflt lvl text)) as [[r [H _]]|[c H]]; eauto.
Qed.
Print Assumptions C15_parse_message_flat_no_crash.

Example C15_message_examples :
  outcome_code (parse_message tables_of "2.5" TOLERANT false "MSH|^~\&|a|b|c|d|20200101||ADT^A01|1|P|2.5") = 0 /\
  outcome_code (parse_message tables_of "2.5" STRICT false "MSH|^~\&|a|b|c|d|20200101||ADT^A01|1|P|9.9") = 12 /\
  outcome_code (parse_message tables_of "2.5" TOLERANT false "PID|1") = 1.
Proof. vm_compute. repeat split; reflexivity. Qed.

(* ============================================================================================ *)
(* validate(return_errors=True) returns a report instead of raising - SEGMENT LEVEL.
   Model/Validate.v makes every partial operation of validation.py explicit (a malformed reference
   row, a complex datatype held against a leaf reference - the TypeError/IndexError of finding F11 -,
   to_er7() of an MSH-1/MSH-2 field without children are Err (Crash _); load_reference of a missing
   struct is Err (HL7 EChildNotFound)).  None of them is reachable on a Segment that parse_segment
   built from text: for EVERY text, every shipped version, both validation levels, every delimiter set
   (of the parser and of the validator) and ANY leaf function.  Proof: Proofs/ValidateTotal.v (an
   invariant of the parsed tree: an element carries a complex datatype only under the name whose
   reference - the one the validator will hold against it - is that sequence) and
   Proofs/ValidateTotalTables.v (the table premises, one vm_compute over all shipped tables). *)
From HL7 Require Import Model.Validate Proofs.ValidateTotal Proofs.ValidateTotalTables.

Theorem C15_validate_segment_total : forall v t lvl e leaf (text : str) s e', tables_of v = Some t ->
  parse_segment t lvl e leaf text None = Ok s ->
  exists errs, validate_errors t e' s = Ok errs.
Proof. exact shipped_parse_segment_validates. Qed.
Print Assumptions C15_validate_segment_total.

(* the same through the public wrapper: Segment.validate(return_errors=True) returns the report
   (is_valid, errors, warnings); no exception of any kind *)
Theorem C15_validate_segment_returns_report : forall v t lvl e leaf (text : str) s e' has_report,
  tables_of v = Some t -> parse_segment t lvl e leaf text None = Ok s ->
  exists r, fst (validate_wrapper true has_report (validate_seg_log t e' s)) = VReturned r.
Proof.
  intros v t lvl e leaf text s e' hr Ht H.
  destruct (shipped_parse_segment_validates v t lvl e leaf text s e' Ht H) as [errs E].
  unfold validate_errors, lift_errors in E. destruct (validate_seg_log t e' s) as [l|x]; [|discriminate].
  cbn. eauto.
Qed.
Print Assumptions C15_validate_segment_returns_report.

Theorem C15_validate_segment_never_raises : forall v t lvl e leaf (text : str) s e' x, tables_of v = Some t ->
  parse_segment t lvl e leaf text None = Ok s -> validate_errors t e' s <> Err x.
Proof.
  intros v t lvl e leaf text s e' x Ht H.
  destruct (shipped_parse_segment_validates v t lvl e leaf text s e' Ht H) as [errs ->]. discriminate.
Qed.
Print Assumptions C15_validate_segment_never_raises.

(* for ANY tables satisfying the premises (custom tables): the statement does not depend on the
   shipped data *)
Theorem C15_validate_segment_total_general : forall t lvl e leaf (text : str) s e',
  base t (Some (unbs "ST")) = true -> base t (Some (unbs "varies")) = false ->
  (forall n r, slookup n (t_fields t) = Some r -> gref t r) ->
  (forall n r, slookup n (t_components t) = Some r -> gref t r) ->
  (forall n r, length n <= 3 -> slookup n (t_segments t) = Some r -> gseg t n r) ->
  parse_segment t lvl e leaf text None = Ok s -> exists errs, validate_errors t e' s = Ok errs.
Proof. intros t lvl e leaf text s e' H1 H2 H3 H4 H5. exact (parse_segment_validates t H1 H2 H3 H4 H5 lvl e leaf text s e'). Qed.
Print Assumptions C15_validate_segment_total_general.

(* the hypotheses are satisfiable and the reports are the library's (checked against hl7apy):
   the Z-segment with components and subcomponents (TypeError before the fix of F11), fields beyond
   the table, both levels, lower-case names, MSH lines, an inline (withdrawn-field) row of v2.8 *)
Example C15_validate_examples :
  (let V t v lvl (s : str) :=
     match parse_segment t lvl default_ec (leaf_enc v lvl default_ec) s None with
     | Ok sg => match validate_errors t default_ec sg with Ok l => Some (length l) | Err _ => None end
     | Err _ => Some 99
     end in
   V Gen.Tables_v2_5.tables "2.5" TOLERANT "ZXX|b^c&d" = Some 2 /\
   V Gen.Tables_v2_5.tables "2.5" TOLERANT "PID|1^2" = Some 3 /\
   V Gen.Tables_v2_5.tables "2.5" STRICT "PID|1^2" = Some 99 /\
   V Gen.Tables_v2_5.tables "2.5" TOLERANT "pid|1" = Some 2 /\
   V Gen.Tables_v2_5.tables "2.5" STRICT "QPD|a||q||beyond" = Some 1 /\
   V Gen.Tables_v2_5.tables "2.5" TOLERANT "MSH|^~\&|a" = Some 5 /\
   V Gen.Tables_v2_5.tables "2.5" TOLERANT "OBX|1|CE|a^b&c" = Some 2 /\
   V Gen.Tables_v2_8.tables "2.8" TOLERANT "pid|1||3|a^b&c^d" = Some 6 /\
   V Gen.Tables_v2_8.tables "2.8" TOLERANT "PID|1||3|a^b&c^d" = Some 5).
Proof. vm_compute. repeat split; reflexivity. Qed.

(* ============================================================================================ *)
(* MESSAGE LEVEL, DEFAULT path: parse_message(text, validation_level=lvl) with find_groups=True
   and the shipped libraries returns a Message or raises one of the library's exceptions - for
   EVERY text, both levels - and to_er7() of every Message that parse_message returned (either mode)
   succeeds.  The group search of Model/Groups.v is covered completely: the parents stack is never
   empty and always contains the entry list.index looks for, the current parent pointer always
   addresses a group, every row the search visits resolves, the recursion depth is bounded by the
   nesting depth of the shipped structures (kernel-checked <= 12 against the fuel of 40 that stands
   for CPython's RecursionError), repetitions[...] is only read for declared rows, and the
   `except AttributeError` fallback is never needed; the MSH segment stays the first top-level
   child, so Message._get_encoding_chars finds MSH-1/MSH-2 with at least four delimiters.
   Proofs: Proofs/NoCrashGroupedCore.v (the search loop, generic in the segment parser; table
   premises `grp_tables_ok` / `msh_top_ok` decided by vm_compute for all shipped versions) and
   Proofs/NoCrashGrouped.v (message level). *)
From HL7 Require Proofs.NoCrashGrouped.

Theorem C15_parse_message_grouped_no_crash : forall dflt lvl (text : str),
  (exists r, parse_message tables_of dflt lvl true text = Ok r) \/
  (exists c, parse_message tables_of dflt lvl true text = Err (HL7 c)).
Proof. exact Proofs.NoCrashGrouped.parse_message_grouped_outcome. Qed.
Print Assumptions C15_parse_message_grouped_no_crash.

Theorem C15_parse_message_no_crash : forall dflt lvl find_groups (text : str),
  (exists r, parse_message tables_of dflt lvl find_groups text = Ok r) \/
  (exists c, parse_message tables_of dflt lvl find_groups text = Err (HL7 c)).
Proof.
  intros dflt lvl [|] text; [apply C15_parse_message_grouped_no_crash|apply C15_parse_message_flat_no_crash].
Qed.
Print Assumptions C15_parse_message_no_crash.

Theorem C15_parse_message_never_crashes : forall dflt lvl find_groups (text : str) k,
  parse_message tables_of dflt lvl find_groups text <> Err (Crash k) /\
  parse_message tables_of dflt lvl find_groups text <> Err OutOfFuel /\
  parse_message tables_of dflt lvl find_groups text <> Err PyValueError.
Proof.
  intros dflt lvl fg text k.
  destruct (C15_parse_message_no_crash dflt lvl fg text) as [[r ->]|[c ->]]; repeat split; discriminate.
Qed.
Print Assumptions C15_parse_message_never_crashes.

(* to_er7() of every message that parsed, in either mode *)
Theorem C15_enc_message_total : forall dflt lvl find_groups (text : str) t m,
  parse_message tables_of dflt lvl find_groups text = Ok (t, m) -> exists x, enc_message t lvl m = Ok x.
Proof. exact Proofs.NoCrashGrouped.parse_message_encodes. Qed.
Print Assumptions C15_enc_message_total.

Theorem C15_parse_message_then_to_er7 : forall dflt lvl (text : str),
  (exists t m x, parse_message tables_of dflt lvl true text = Ok (t, m) /\ enc_message t lvl m = Ok x) \/
  (exists c, parse_message tables_of dflt lvl true text = Err (HL7 c)).
Proof. exact Proofs.NoCrashGrouped.parse_message_grouped_total. Qed.
Print Assumptions C15_parse_message_then_to_er7.

Example C15_message_grouped_examples :
  (let M lvl (s : str) := parse_message tables_of "2.5" lvl true s in
   let E lvl (s : str) := match M lvl s with Ok (t, m) => outcome_code (enc_message t lvl m) | Err x => 100 + exn_code x end in
   E TOLERANT ("MSH|^~\&|a|b|c|d|20200101||ORU^R01|1|P|2.5" ++ [CR] ++ "PID|1" ++ [CR] ++ "ZXX|q" ++ [CR] ++
               "OBR|1" ++ [CR] ++ "OBX|1" ++ [CR] ++ "OBR|2" ++ [CR] ++ "OBX|1") = 0 /\
   E STRICT ("MSH|^~\&|a|b|c|d|20200101||ADT^A01|1|P|2.5" ++ [CR] ++ "OBR|1") = 105 /\
   E TOLERANT ("MSH|^~\&|a|b|c|d|20200101||ADT^A01|1|P|2.5" ++ [CR] ++ " PID|1" ++ [CR] ++ "pid|2") = 0 /\
   E TOLERANT "MSH|^~\&|a|b|c|d|20200101||XXX^Y01|1|P|2.5" = 0 /\
   E TOLERANT "PID|1" = 101).
Proof. vm_compute. repeat split; reflexivity. Qed.

(* ============================================================================================ *)
(* validate(return_errors=True) returns a report instead of raising - MESSAGE LEVEL.
   Model/Validate.v v_message / v_node (Message.validate(): _is_valid over the Message, its Groups and
   Segments, with the Group/Message find_child_reference lookups, the cardinality and allowed-children
   checks) makes the partial operations explicit: a malformed or reference-less row (TypeError), el.datatype
   on a Group (ChildNotFound), a Segment held against a leaf reference (AttributeError), plus everything
   of the segment level.  None is reachable on a Message that parse_message returned: for EVERY text,
   both find_groups modes, both validation levels, every shipped version (MSH-12 or the default), and
   whatever level / delimiters (lvl', e') the validator reads.  Proof: Proofs/ValidateTotalMsg.v (tree
   invariant `nok`: every group carries the structure of the group table's entry of its name, is a
   declared child of its parent and lies on a path to a segment row the search found - a new invariant of
   the loop of Model/Groups.v, which is what keeps the reference-less rows of the v2.1 ORU_R03 groups out
   of every parsed tree; every segment is validated against the segment table's entry of its name, the
   segment-level theorem above) and Proofs/ValidateTotalMsgTables.v (table premise `msg_tables_ok`, one
   kernel-evaluated check over all shipped tables). *)
From HL7 Require Import Proofs.ValidateTotalMsg Proofs.ValidateTotalMsgTables.

Theorem C15_validate_message_total : forall dflt lvl find_groups (text : str) t m lvl' e',
  parse_message tables_of dflt lvl find_groups text = Ok (t, m) ->
  exists errs, validate_message_errors t lvl' e' m = Ok errs.
Proof.
  intros dflt lvl fg text t m lvl' e' H.
  destruct (shipped_parse_message_validates dflt lvl fg text t m lvl' e' H) as [log E].
  unfold validate_message_errors, validate_message_log, lift_errors. rewrite E. eauto.
Qed.
Print Assumptions C15_validate_message_total.

(* through the public wrapper: Message.validate(return_errors=True) returns the report *)
Theorem C15_validate_message_returns_report : forall dflt lvl find_groups (text : str) t m lvl' e' has_report,
  parse_message tables_of dflt lvl find_groups text = Ok (t, m) ->
  exists r, fst (validate_wrapper true has_report (validate_message_log t lvl' e' m)) = VReturned r.
Proof.
  intros dflt lvl fg text t m lvl' e' hr H.
  destruct (shipped_parse_message_validates dflt lvl fg text t m lvl' e' H) as [log E].
  unfold validate_message_log. rewrite E. cbn. eauto.
Qed.
Print Assumptions C15_validate_message_returns_report.

Theorem C15_parse_validate_never_raises : forall dflt lvl find_groups (text : str) t m lvl' e' x,
  parse_message tables_of dflt lvl find_groups text = Ok (t, m) ->
  validate_message_errors t lvl' e' m <> Err x.
Proof.
  intros dflt lvl fg text t m lvl' e' x H.
  destruct (C15_validate_message_total dflt lvl fg text t m lvl' e' H) as [errs ->]. discriminate.
Qed.
Print Assumptions C15_parse_validate_never_raises.

(* the sentence of the property as a whole, with the validator reading the message's own level and the
   delimiters the message reads from its MSH: "for any message that parsed, to_er7() succeeds and
   validate(return_errors=True) returns a report instead of raising" *)
Theorem C15_parsed_message_encodes_and_validates : forall dflt lvl find_groups (text : str) t m,
  parse_message tables_of dflt lvl find_groups text = Ok (t, m) ->
  exists x e errs, enc_message t lvl m = Ok x /\ message_ec (t_version t) m = Ok e /\
                   validate_message_errors t lvl e m = Ok errs.
Proof.
  intros dflt lvl fg text t m H.
  destruct (Proofs.NoCrashGrouped.parse_message_encodes dflt lvl fg text t m H) as [x Hx].
  unfold enc_message in Hx. destruct (message_ec (t_version t) m) as [e|] eqn:He; [|discriminate].
  destruct (C15_validate_message_total dflt lvl fg text t m lvl e H) as [errs Hv].
  exists x, e, errs. unfold enc_message. rewrite He. auto.
Qed.
Print Assumptions C15_parsed_message_encodes_and_validates.

(* ... and for a Z MESSAGE (MSH-9 names a Z structure, e.g. ZDT^Z01: Message.is_z_element(), validated
   through _check_z_element - no message-level structure) the report is known exactly: every child of a
   parsed Z message is a segment carrying the segment table's entry of its name (the empty structure of a
   Z message opens no group and hands no reference to a segment), and Message.validate() reports the
   concatenation, in order, of what Segment.validate() reports for each segment (first exception wins -
   and by C15_validate_message_total there is none).  Proofs/ValidateZParsed.v, Proofs/ValidateZ.v; the
   Z-message theorems for arbitrary trees are in Properties/C04.v (the C04_z_message theorems). *)
From HL7 Require Import Proofs.ValidateZ Proofs.ValidateZParsed.

Theorem C15_parsed_z_message_report : forall dflt lvl find_groups (text : str) t m mn lvl' e',
  parse_message tables_of dflt lvl find_groups text = Ok (t, m) ->
  m_name m = Some mn -> Validate.valid_z_message_name mn = true ->
  exists segs, m_children m = map NSeg segs /\ (forall s, In s segs -> table_seg t s) /\
               validate_message_log t lvl' e' m = seq_res (map (validate_seg_log t e') segs).
Proof. exact parsed_z_message_segmentwise. Qed.
Print Assumptions C15_parsed_z_message_report.

(* for ANY tables satisfying the segment-level premises and any message tree satisfying the invariant
   `mok` (the statement does not depend on the shipped data) *)
Theorem C15_validate_message_total_general : forall t lvl e m,
  base t (Some (unbs "ST")) = true -> base t (Some (unbs "varies")) = false ->
  (forall n r, slookup n (t_fields t) = Some r -> ValidateTotal.gref t r) ->
  (forall n r, slookup n (t_components t) = Some r -> ValidateTotal.gref t r) ->
  mok t m -> exists log, v_message t lvl e m = Ok log.
Proof. intros t lvl e m H1 H2 H3 H4. exact (v_message_total t H1 H2 H3 H4 lvl e m). Qed.
Print Assumptions C15_validate_message_total_general.

(* the hypotheses are satisfiable and the validator really runs (numbers of errors, the same as hl7apy
   reports): a grouped ORU_R01 with a
   Z-segment, the flat parse of the same text, a message whose structure is unknown (no report lines but
   "Unknown element"), a Z-message, a v2.1 ORU^R03 (whose groups carry rows without reference: they are
   never opened, PID stays at top level) *)
Example C15_validate_message_examples :
  (let V dflt lvl fg (s : str) :=
     match parse_message tables_of dflt lvl fg s with
     | Ok (t, m) => match message_ec (t_version t) m with
                    | Ok e => match validate_message_errors t lvl e m with Ok l => Some (length l) | Err _ => None end
                    | Err _ => None
                    end
     | Err _ => Some 99
     end in
   let oru : str := ("MSH|^~\&|a|b|c|d|20200101||ORU^R01|1|P|2.5" ++ [CR] ++ "PID|1" ++ [CR] ++ "ZXX|q" ++ [CR] ++
                     "OBR|1" ++ [CR] ++ "OBX|1" ++ [CR] ++ "OBR|2" ++ [CR] ++ "OBX|1")%list in
   V "2.5" TOLERANT true oru = Some 8 /\ V "2.5" TOLERANT false oru = Some 2 /\ V "2.5" STRICT true oru = Some 8 /\
   V "2.5" TOLERANT true "MSH|^~\&|a|b|c|d|20200101||XXX^Y01|1|P|2.5" = Some 1 /\
   V "2.5" TOLERANT true ("MSH|^~\&|a|b|c|d|20200101||ZAB^Z01|1|P|2.5" ++ [CR] ++ "PID|1")%list = Some 2 /\
   V "2.5" TOLERANT true ("MSH|^~\&|a|b|c|d|20200101||ORU^R03|1|P|2.1" ++ [CR] ++ "PID|1" ++ [CR] ++ "OBX|1")%list = Some 3 /\
   V "2.1" TOLERANT true ("MSH|^~\&|a|b|c|d|20200101||ORU^R03|1|P" ++ [CR] ++ "PID|1" ++ [CR] ++ "OBX|1")%list = Some 4).
Proof. vm_compute. repeat split; reflexivity. Qed.
