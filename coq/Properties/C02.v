(* C02 - every position is encoded at, and parsed from, its own index.
   Theorems only; proofs live in Proofs/RoundTripZ.v (open-ended Z-segments: any index) and
   Proofs/RoundTripSeg.v (table-driven positions).  Statements are about the model's own
   parse_segment and enc_segment, for every valid delimiter set and every supported version. *)
From Coq Require Import List Bool ZArith NArith Init.Byte.
From HL7 Require Import Lib.Str Model.Ec Model.Escape Model.Result Model.Ref Model.Tree Model.Parser Model.Encode
  Model.Leaf Model.Wf.
From HL7 Require Import Gen.Params Gen.Tables.
From HL7 Require Import Proofs.EscapeFacts Proofs.SplitJoin Proofs.LevelCodec Proofs.RoundTripStr Proofs.RoundTripCore
  Proofs.RoundTripVT Proofs.RoundTripZ Proofs.RoundTripTables Proofs.RoundTripSeg Proofs.RoundTripSegTables.
Import ListNotations.
Open Scope bs_scope.

(* Z-segments, ANY index i >= 1 (no bound): the line made of the name, exactly i field separators
   and the value x parses to a segment whose only child is the field Z??_i, whose only component
   has the only subcomponent x; encoding that segment gives exactly that line - the value stands
   after exactly i separators and nowhere else. *)
Theorem C02_open_ended_Z : forall v t, tables_of v = Some t ->
  forall e, ec_ok e ->
  forall a b, bupper a = a -> bupper b = b ->
  forall (i : nat) (x : str), 1 <= i ->
  is_blank x = false -> delim_free e x -> st_fixed v e x ->
  let text := zname a b ++ repeat (fsep e) i ++ x in
  exists s f c sb,
    parse_segment t TOLERANT e (leaf_enc v TOLERANT e) text None = Ok s /\
    s_children s = [f] /\ f_name f = Some (name_idx (zname a b) i) /\
    f_children f = [c] /\ c_children c = [sb] /\ sc_value sb = x /\
    enc_segment t e s false = Ok text.
Proof.
  intros v t Ht e He a b Ha Hb i x Hi Hx Hd Hl.
  destruct (shipped_table_facts v t Ht) as [Hst [Hvar [Hz _]]].
  assert (Hup : upper (zname a b) = zname a b) by (unfold zname, upper; cbn [map]; now rewrite Ha, Hb).
  assert (Hnf : forall i, slookup (name_idx (zname a b) i) (t_fields t) = None)
    by (intros j; now apply no_z_fields_lookup).
  destruct i as [|k]; [inversion Hi|].
  apply (z_position t e (leaf_enc v TOLERANT e) Hst Hvar a b Hup Hnf He k x Hx Hd). now right.
Qed.
Print Assumptions C02_open_ended_Z.

Example C02_Z_example :
  let x : str := "a\F\b c" in
  is_blank x = false /\ delim_free default_ec x /\ st_fixed "2.5" default_ec x /\
  zname "A" "1" ++ repeat (fsep default_ec) 7 ++ x = unbs "ZA1|||||||a\F\b c".
Proof. repeat split; vm_compute; reflexivity. Qed.

(* Table segments: every supported version, every segment it defines (the structure wildcard
   ANYHL7SEGMENT is not a segment; MSH is excluded here), every field position i whose row is a leaf
   of a base datatype b, every value x that the leaf encoder of b leaves unchanged: the line made of
   the name, exactly i field separators and x parses to the single child <SEG>_i holding x, and
   encodes back to exactly that line. *)
Theorem C02_field_position : forall v t, tables_of v = Some t ->
  forall e, ec_ok e ->
  forall sn r, In (sn, r) (t_segments t) -> sn <> unbs "ANYHL7SEGMENT" -> sn <> unbs "MSH" ->
  exists srows, r = SSeqIn false srows None /\
  forall i row inf b x,
    1 <= i -> nth_error srows (pred i) = Some row ->
    row_ref t row = Some (SLeaf inf) -> i_dt inf = Some b -> base t (Some b) = true ->
    is_blank x = false -> delim_free e x -> leaf_enc v TOLERANT e (Some b) x = Ok x ->
    let text := sn ++ repeat (fsep e) i ++ x in
    exists s f c sb,
      parse_segment t TOLERANT e (leaf_enc v TOLERANT e) text None = Ok s /\
      s_children s = [f] /\ f_name f = Some (name_idx sn i) /\ f_children f = [c] /\
      c_children c = [sb] /\ sc_value sb = x /\
      enc_segment t e s false = Ok text.
Proof.
  intros v t Ht e He sn r Hin Ha Hm.
  destruct (shipped_table_facts v t Ht) as [Hst [Hvar _]].
  destruct (shipped_segment_ok v t sn r Ht Hin Ha Hm) as [Hl [srows [-> [H3 [Hup [Hmsh [Hz [Hc [Hrows [Hnof _]]]]]]]]]].
  exists srows. split; [reflexivity|]. intros i row inf b x Hi Hn Hr Hdt Hb Hx Hd Hlf.
  exact (field_position t e (leaf_enc v TOLERANT e) He Hst Hvar sn srows i row inf b x
           H3 Hup Hmsh Hz Hl Hc Hrows Hi Hn Hr Hdt Hb Hx Hd Hlf).
Qed.
Print Assumptions C02_field_position.

(* a real row: PID-1 (SI) of v2.5 *)
Definition pid_rows25 : list srow :=
  match slookup "PID" (t_segments Gen.Tables_v2_5.tables) with Some (SSeqIn _ rows _) => rows | _ => [] end.
Definition pid1_inf : info :=
  match row_ref Gen.Tables_v2_5.tables (nth 0 pid_rows25 SRowBad) with Some (SLeaf i) => i | _ => mk_info None None None 0 end.
Example C02_field_position_example :
  let t := Gen.Tables_v2_5.tables in
    slookup "PID" (t_segments t) = Some (SSeqIn false pid_rows25 None) /\
    nth_error pid_rows25 (pred 1) = Some (nth 0 pid_rows25 SRowBad) /\
    row_ref t (nth 0 pid_rows25 SRowBad) = Some (SLeaf pid1_inf) /\
    i_dt pid1_inf = Some (unbs "SI") /\ base t (Some (unbs "SI")) = true /\
    leaf_enc "2.5" TOLERANT default_ec (Some (unbs "SI")) "12" = Ok (unbs "12") /\
    is_blank "12" = false /\ delim_free default_ec "12".
Proof. repeat split; vm_compute; reflexivity. Qed.

(* ... and every field position whose row is a leaf of type varies (OBX-5, RDT-1, QPD-3 ...): the
   value is stored as the ST subcomponent of the component VARIES_1 *)
Theorem C02_field_position_varies : forall v t, tables_of v = Some t ->
  forall e, ec_ok e ->
  forall sn r, In (sn, r) (t_segments t) -> sn <> unbs "ANYHL7SEGMENT" -> sn <> unbs "MSH" ->
  exists srows, r = SSeqIn false srows None /\
  forall i row inf x,
    1 <= i -> nth_error srows (pred i) = Some row ->
    row_ref t row = Some (SLeaf inf) -> i_dt inf = Some (unbs "varies") ->
    is_blank x = false -> delim_free e x -> st_fixed v e x ->
    let text := sn ++ repeat (fsep e) i ++ x in
    exists s f c sb,
      parse_segment t TOLERANT e (leaf_enc v TOLERANT e) text None = Ok s /\
      s_children s = [f] /\ f_name f = Some (name_idx sn i) /\ f_dt f = Some (unbs "varies") /\
      f_children f = [c] /\ c_name c = Some (name_idx VARIES 1) /\
      c_children c = [sb] /\ sc_value sb = x /\
      enc_segment t e s false = Ok text.
Proof.
  intros v t Ht e He sn r Hin Ha Hm.
  destruct (shipped_table_facts v t Ht) as [Hst [Hvar _]].
  destruct (shipped_segment_ok v t sn r Ht Hin Ha Hm) as [Hl [srows [-> [H3 [Hup [Hmsh [Hz [Hc [Hrows [Hnof _]]]]]]]]]].
  exists srows. split; [reflexivity|]. intros i row inf x Hi Hn Hr Hdt Hx Hd Hlf.
  exact (field_position_varies t e (leaf_enc v TOLERANT e) He Hst Hvar sn srows i row inf x
           H3 Hup Hmsh Hz Hl Hc Hrows Hi Hn Hr Hdt Hx Hd Hlf).
Qed.
Print Assumptions C02_field_position_varies.

(* ... and every field position whose row has NO datatype (the reserved positions of v2.5.1:
   MSA-5, OBX-20, OBX-21, OBX-22): parsed like varies, the field's datatype stays None.  Together
   with C02_field_position (base-typed leaves), C02_field_position_varies and the struct-typed
   positions below, every kind of field row that Model/Wf.v allows is covered. *)
Theorem C02_field_position_untyped : forall v t, tables_of v = Some t ->
  forall e, ec_ok e ->
  forall sn r, In (sn, r) (t_segments t) -> sn <> unbs "ANYHL7SEGMENT" -> sn <> unbs "MSH" ->
  exists srows, r = SSeqIn false srows None /\
  forall i row inf x,
    1 <= i -> nth_error srows (pred i) = Some row ->
    row_ref t row = Some (SLeaf inf) -> i_dt inf = None ->
    is_blank x = false -> delim_free e x -> st_fixed v e x ->
    let text := sn ++ repeat (fsep e) i ++ x in
    exists s f c sb,
      parse_segment t TOLERANT e (leaf_enc v TOLERANT e) text None = Ok s /\
      s_children s = [f] /\ f_name f = Some (name_idx sn i) /\ f_dt f = None /\
      f_children f = [c] /\ c_name c = Some (name_idx VARIES 1) /\
      c_children c = [sb] /\ sc_value sb = x /\
      enc_segment t e s false = Ok text.
Proof.
  intros v t Ht e He sn r Hin Ha Hm.
  destruct (shipped_table_facts v t Ht) as [Hst [Hvar _]].
  destruct (shipped_segment_ok v t sn r Ht Hin Ha Hm) as [Hl [srows [-> [H3 [Hup [Hmsh [Hz [Hc [Hrows [Hnof _]]]]]]]]]].
  exists srows. split; [reflexivity|]. intros i row inf x Hi Hn Hr Hdt Hx Hd Hlf.
  exact (field_position_untyped t e (leaf_enc v TOLERANT e) He Hst Hvar sn srows i row inf x
           H3 Hup Hmsh Hz Hl Hc Hrows Hi Hn Hr Hdt Hx Hd Hlf).
Qed.
Print Assumptions C02_field_position_untyped.

(* OBX-20 of v2.5.1 is such a position *)
Definition obx_rows : list srow :=
  match slookup "OBX" (t_segments Gen.Tables_v2_5_1.tables) with Some (SSeqIn _ rows _) => rows | _ => [] end.
Definition obx20_inf : info :=
  match row_ref Gen.Tables_v2_5_1.tables (nth 19 obx_rows SRowBad) with Some (SLeaf i) => i | _ => mk_info (Some []) None None 0 end.
Example C02_field_position_untyped_example :
  let t := Gen.Tables_v2_5_1.tables in
  slookup "OBX" (t_segments t) = Some (SSeqIn false obx_rows None) /\
  nth_error obx_rows (pred 20) = Some (nth 19 obx_rows SRowBad) /\
  row_ref t (nth 19 obx_rows SRowBad) = Some (SLeaf obx20_inf) /\ i_dt obx20_inf = None.
Proof. repeat split; vm_compute; reflexivity. Qed.

(* Segments whose last defined field is of type varies (RDT, QPD) accept ANY index beyond it (no
   bound): the value after exactly i field separators parses to the single child <SEG>_i, of type
   varies, and encodes back to exactly that line. *)
Theorem C02_open_ended_varies : forall v t, tables_of v = Some t ->
  forall e, ec_ok e ->
  forall sn r, In (sn, r) (t_segments t) -> sn <> unbs "ANYHL7SEGMENT" -> sn <> unbs "MSH" ->
  exists srows, r = SSeqIn false srows None /\
  forall lrow li i x,
    nth_error srows (pred (length srows)) = Some lrow -> row_ref t lrow = Some (SLeaf li) ->
    i_dt li = Some (unbs "varies") ->
    length srows < i ->
    is_blank x = false -> delim_free e x -> st_fixed v e x ->
    let text := sn ++ repeat (fsep e) i ++ x in
    exists s f c sb,
      parse_segment t TOLERANT e (leaf_enc v TOLERANT e) text None = Ok s /\
      s_children s = [f] /\ f_name f = Some (name_idx sn i) /\ f_dt f = Some (unbs "varies") /\
      f_children f = [c] /\ c_name c = Some (name_idx VARIES 1) /\
      c_children c = [sb] /\ sc_value sb = x /\
      enc_segment t e s false = Ok text.
Proof.
  intros v t Ht e He sn r Hin Ha Hm.
  destruct (shipped_table_facts v t Ht) as [Hst [Hvar _]].
  destruct (shipped_segment_ok v t sn r Ht Hin Ha Hm) as [Hl [srows [-> [H3 [Hup [Hmsh [Hz [Hc [Hrows [Hnof _]]]]]]]]]].
  exists srows. split; [reflexivity|]. intros lrow li i x Hlast Hlr Hld Hi Hx Hd Hlf.
  exact (open_ended_position t e (leaf_enc v TOLERANT e) He Hst Hvar sn srows lrow li i x
           H3 Hup Hmsh Hz Hl Hc Hrows Hlast Hlr Hld Hi (Hnof i Hi) Hx Hd Hlf).
Qed.
Print Assumptions C02_open_ended_varies.

(* RDT of v2.5 is such a segment: one defined field, of type varies *)
Example C02_open_ended_varies_example :
  let t := Gen.Tables_v2_5.tables in
  exists srows lrow li,
    In (unbs "RDT", SSeqIn false srows None) (t_segments t) /\ length srows = 1 /\
    nth_error srows (pred (length srows)) = Some lrow /\ row_ref t lrow = Some (SLeaf li) /\
    i_dt li = Some (unbs "varies").
Proof.
  cbv zeta. 
  destruct (slookup "RDT" (t_segments Gen.Tables_v2_5.tables)) as [r|] eqn:E; [|vm_compute in E; discriminate].
  pose proof (slookup_in _ _ _ E) as Hin. vm_compute in E. injection E as <-.
  do 3 eexists. split; [exact Hin|]. vm_compute. repeat split; reflexivity.
Qed.

(* Component j (of base datatype b) of a field whose datatype is a struct D: the value stands
   after exactly i field separators and j-1 component separators, and is found under D_j. *)
Theorem C02_component_position : forall v t, tables_of v = Some t ->
  forall e, ec_ok e ->
  forall sn r, In (sn, r) (t_segments t) -> sn <> unbs "ANYHL7SEGMENT" -> sn <> unbs "MSH" ->
  exists srows, r = SSeqIn false srows None /\
  forall i row inf D rows j crow ci b x,
    1 <= i -> nth_error srows (pred i) = Some row ->
    row_ref t row = Some (SSeqDt inf) -> i_dt inf = Some D -> slookup D (t_structs t) = Some rows ->
    1 <= j -> nth_error rows (pred j) = Some crow ->
    row_ref t crow = Some (SLeaf ci) -> i_dt ci = Some b ->
    is_blank x = false -> delim_free e x -> leaf_enc v TOLERANT e (Some b) x = Ok x ->
    let text := sn ++ repeat (fsep e) i ++ repeat (csep e) (pred j) ++ x in
    exists s f c sb,
      parse_segment t TOLERANT e (leaf_enc v TOLERANT e) text None = Ok s /\
      s_children s = [f] /\ f_name f = Some (name_idx sn i) /\ f_children f = [c] /\
      c_name c = Some (name_idx D j) /\ c_children c = [sb] /\ sc_value sb = x /\
      enc_segment t e s false = Ok text.
Proof.
  intros v t Ht e He sn r Hin Ha Hm.
  destruct (shipped_table_facts v t Ht) as [Hst [Hvar _]].
  destruct (shipped_segment_ok v t sn r Ht Hin Ha Hm) as [Hl [srows [-> [H3 [Hup [Hmsh [Hz [Hc [Hrows [Hnof _]]]]]]]]]].
  exists srows. split; [reflexivity|].
  intros i row inf D rows j crow ci b x Hi Hn Hr Hdt HlD Hj Hnc Hrc Hdc Hx Hd Hlf.
  exact (component_position t e (leaf_enc v TOLERANT e) He Hst Hvar sn srows i row inf D rows j crow ci b x
           H3 Hup Hmsh Hz Hl Hc Hrows Hi Hn Hr Hdt HlD Hj Hnc Hrc Hdc Hx Hd Hlf).
Qed.
Print Assumptions C02_component_position.

(* Subcomponent k of component j (whose datatype is the flat struct D2) of a field of struct
   datatype D: after exactly i field, j-1 component and k-1 subcomponent separators, found under
   D_j / D2_k, and nowhere else (the encoding is exactly that line). *)
Theorem C02_subcomponent_position : forall v t, tables_of v = Some t ->
  forall e, ec_ok e ->
  forall sn r, In (sn, r) (t_segments t) -> sn <> unbs "ANYHL7SEGMENT" -> sn <> unbs "MSH" ->
  exists srows, r = SSeqIn false srows None /\
  forall i row inf D rows j crow ci D2 rows2 k x,
    1 <= i -> nth_error srows (pred i) = Some row ->
    row_ref t row = Some (SSeqDt inf) -> i_dt inf = Some D -> slookup D (t_structs t) = Some rows ->
    1 <= j -> nth_error rows (pred j) = Some crow ->
    row_ref t crow = Some (SSeqDt ci) -> i_dt ci = Some D2 -> slookup D2 (t_structs t) = Some rows2 ->
    1 <= k <= length rows2 ->
    is_blank x = false -> delim_free e x -> leaf_enc v TOLERANT e (sub_dt t rows2 k) x = Ok x ->
    let text := sn ++ repeat (fsep e) i ++ repeat (csep e) (pred j) ++ repeat (ssep e) (pred k) ++ x in
    exists s f c sb,
      parse_segment t TOLERANT e (leaf_enc v TOLERANT e) text None = Ok s /\
      s_children s = [f] /\ f_name f = Some (name_idx sn i) /\ f_children f = [c] /\
      c_name c = Some (name_idx D j) /\ c_children c = [sb] /\
      sc_name sb = Some (name_idx D2 k) /\ sc_value sb = x /\
      enc_segment t e s false = Ok text.
Proof.
  intros v t Ht e He sn r Hin Ha Hm.
  destruct (shipped_table_facts v t Ht) as [Hst [Hvar _]].
  destruct (shipped_segment_ok v t sn r Ht Hin Ha Hm) as [Hl [srows [-> [H3 [Hup [Hmsh [Hz [Hc [Hrows [Hnof _]]]]]]]]]].
  exists srows. split; [reflexivity|].
  intros i row inf D rows j crow ci D2 rows2 k x Hi Hn Hr Hdt HlD Hj Hnc Hrc Hdc HlD2 Hk Hx Hd Hlf.
  exact (subcomponent_position t e (leaf_enc v TOLERANT e) He Hst Hvar sn srows i row inf D rows j crow ci D2 rows2 k x
           H3 Hup Hmsh Hz Hl Hc Hrows Hi Hn Hr Hdt HlD Hj Hnc Hrc Hdc HlD2 Hk Hx Hd Hlf).
Qed.
Print Assumptions C02_subcomponent_position.


(* real rows: PID-3 (CX), CX-4 (HD), HD-2 (ST) of v2.5: the line PID|||^^^&x *)
Definition ex_t := Gen.Tables_v2_5.tables.
Definition ex_srows : list srow := match slookup "PID" (t_segments ex_t) with Some (SSeqIn _ rows _) => rows | _ => [] end.
Definition ex_row : srow := nth 2 ex_srows SRowBad.
Definition ex_inf : info := match row_ref ex_t ex_row with Some (SSeqDt i) => i | _ => mk_info None None None 0 end.
Definition ex_rows : list srow := match slookup "CX" (t_structs ex_t) with Some rows => rows | None => [] end.
Definition ex_crow : srow := nth 3 ex_rows SRowBad.
Definition ex_ci : info := match row_ref ex_t ex_crow with Some (SSeqDt i) => i | _ => mk_info None None None 0 end.
Definition ex_rows2 : list srow := match slookup "HD" (t_structs ex_t) with Some rows => rows | None => [] end.

Example C02_subcomponent_position_example :
    slookup "PID" (t_segments ex_t) = Some (SSeqIn false ex_srows None) /\
    nth_error ex_srows (pred 3) = Some ex_row /\ row_ref ex_t ex_row = Some (SSeqDt ex_inf) /\
    i_dt ex_inf = Some (unbs "CX") /\ slookup "CX" (t_structs ex_t) = Some ex_rows /\
    nth_error ex_rows (pred 4) = Some ex_crow /\ row_ref ex_t ex_crow = Some (SSeqDt ex_ci) /\
    i_dt ex_ci = Some (unbs "HD") /\ slookup "HD" (t_structs ex_t) = Some ex_rows2 /\
    Nat.leb 2 (length ex_rows2) = true /\ sub_dt ex_t ex_rows2 2 = Some (unbs "ST") /\
    leaf_enc "2.5" TOLERANT default_ec (sub_dt ex_t ex_rows2 2) "x" = Ok (unbs "x") /\
    unbs "PID" ++ repeat (fsep default_ec) 3 ++ repeat (csep default_ec) (pred 4) ++
      repeat (ssep default_ec) (pred 2) ++ unbs "x" = unbs "PID|||^^^&x".
Proof. repeat split; vm_compute; reflexivity. Qed.
