(* C14 - name, long name, position and letter case all address the same child.

   The model is Model/Resolve.v: `resolve t lvl p name` says which child ENTRY of parent p (a
   Segment, Field or Component as the library builds it) the attribute `name` designates -- TChild e,
   or TGrand c s for a positional path through a component -- or which exception is raised.  Reads,
   writes and deletes share this resolution (Element.__getattr__/__setattr__/__delattr__,
   ElementList.get/set/remove_by_name, Field._do_traversal all go through find_child_reference on the
   upper-cased name).  General theorems (all names, all indices, any tables) come first, then the
   finite per-version obligations and what they mean.  Lemmas are in Proofs/ResolveFacts.v. *)
From Coq Require Import List Bool Arith NArith ZArith Init.Byte.
From HL7 Require Import Lib.Str Model.Result Model.Ref Model.Tree Model.Parser Model.Resolve Gen.Params Gen.Tables.
From HL7 Require Import Proofs.RoundTripStr Proofs.PlainIndex Proofs.ResolveFacts.
From HL7 Require Oblig.C14_v2_1 Oblig.C14_v2_2 Oblig.C14_v2_3 Oblig.C14_v2_3_1 Oblig.C14_v2_4 Oblig.C14_v2_5
                 Oblig.C14_v2_5_1 Oblig.C14_v2_6 Oblig.C14_v2_7 Oblig.C14_v2_8 Oblig.C14_v2_8_1 Oblig.C14_v2_8_2.
Import ListNotations.
Open Scope bs_scope.

(* ================================================================== *)
(* 1. Letter case                                                       *)

(* Two spellings with the same upper-case form resolve identically, for every parent, unless that
   form is one of the element's own attribute names (then the lower-case spelling is the attribute). *)
Theorem C14_case t lvl p n n' :
  upper n = upper n' -> smem (upper n) (cls_attrs_of p) = false ->
  resolve t lvl p n = resolve t lvl p n'.
Proof. apply resolve_case. Qed.
Print Assumptions C14_case.

(* upper / lower / alternating case are such re-casings *)
Theorem C14_recasings n :
  upper (upper n) = upper n /\ upper (lower n) = upper n /\
  upper (alt_case true n) = upper n /\ upper (alt_case false n) = upper n.
Proof.
  split; [apply upper_idem|]. split; [apply upper_lower|].
  assert (A : forall b s, upper (alt_case b s) = upper s).
  { intros b s. revert b. induction s as [|c s IH]; intros b; [reflexivity|].
    cbn [alt_case upper map]. change (map bupper (alt_case (negb b) s)) with (upper (alt_case (negb b) s)).
    rewrite IH. destruct b; [now rewrite bupper_idem|now rewrite bupper_blower]. }
  split; apply A.
Qed.
Print Assumptions C14_recasings.

(* find_child_reference of Segment / Field+Component (complex) / Group+Message is itself case-blind *)
Theorem C14_case_find t s st r n :
  seg_find_child_reference t s (upper n) = seg_find_child_reference t s n /\
  complex_find_child_reference t st (upper n) = complex_find_child_reference t st n /\
  group_find_child_reference t r st (upper n) = group_find_child_reference t r st n.
Proof. split; [apply seg_find_upper|]. split; [apply complex_find_upper|apply group_find_upper]. Qed.
Print Assumptions C14_case_find.

(* ================================================================== *)
(* 2. Long names                                                        *)

(* the structure whose two maps the parent consults *)
Definition consults (t : tables) (p : parent) (st : structure) : Prop :=
  match p with
  | PSeg s => s_st s = st
  | PField f => f_st f = Some st /\ base t (f_dt f) = false /\ is_varies (f_dt f) = false
  | PComp c => c_st c = Some st
  end.

Lemma resolve_lookup t lvl p st n e :
  consults t p st -> has_map_st st = true -> smem (upper n) (cls_attrs_of p) = false ->
  struct_lookup st (upper n) = Some e -> resolve t lvl p n = Ok (TChild e).
Proof.
  intros C M G L. destruct p as [s|f|c]; cbn [consults resolve cls_attrs_of] in *.
  - subst st. unfold seg_getattr. rewrite (guard_Segment_upper n G).
    unfold seg_find_child_reference. rewrite M, upper_idem, L. reflexivity.
  - destruct C as (Hst & B & V). unfold field_getattr. apply traverse_find_ok; [now apply guard_Field_upper|].
    rewrite (field_find_complex t f _ B V), Hst. unfold complex_find_child_reference.
    now rewrite M, upper_idem, L.
  - unfold comp_getattr. rewrite (guard_Component_upper n G).
    unfold comp_find_child_reference, complex_find_child_reference. rewrite C, M, upper_idem, L. reflexivity.
Qed.

Lemma reserved_covers_attrs p : forallb (fun a => smem a (reserved_of p)) (cls_attrs_of p) = true.
Proof. destruct p; [apply attrs_reserved_Segment|apply attrs_reserved_Field|apply attrs_reserved_Component]. Qed.

(* For ANY structure built from a reference (rows vcs, distinctly named): a row whose long name l is
   carried by no other row of the parent, is not itself a row name and is not an attribute name of the
   parent's class is reached by l -- in any letter case -- exactly as by its HL7 name: the same entry. *)
Theorem C14_long t lvl p st vcs vc l nl nn :
  consults t p st -> built st vcs -> In vc vcs ->
  ref_long (vc_ref vc) = Some (Some l) ->
  (forall vc', In vc' vcs -> ref_long (vc_ref vc') = Some (Some l) -> vc' = vc) ->
  (forall vc', In vc' vcs -> vc_name vc' <> l) ->
  smem l (reserved_of p) = false -> smem (vc_name vc) (reserved_of p) = false ->
  upper nl = l -> upper nn = vc_name vc ->
  resolve t lvl p nl = Ok (TChild (entry_of vc)) /\ resolve t lvl p nn = Ok (TChild (entry_of vc)).
Proof.
  intros C B I R U N Rl Rn El En.
  destruct (built_long_same st vcs vc l B I R U N) as [Ll Ln].
  pose proof (built_has_map _ _ B) as M. pose proof (reserved_covers_attrs p) as Sub.
  split; eapply resolve_lookup; eauto.
  - rewrite El. eapply not_reserved_not_attr; eauto.
  - now rewrite El.
  - rewrite En. eapply not_reserved_not_attr; eauto.
  - now rewrite En.
Qed.
Print Assumptions C14_long.

(* `built` is what ElementFinder._parse_structure produces from a sequence/choice reference whose
   rows are well formed and distinctly named (NAME_1 .. NAME_n of the tables are: name_idx_seq_NoDup) *)
Theorem C14_built t r ch vcs i :
  view_of t r = VSeq ch (map Some vcs) i -> NoDup (map vc_name vcs) ->
  exists st, parse_structure t r = Ok st /\ built st vcs /\ st_reference st = r /\ st_info st = i.
Proof. apply parse_structure_seq. Qed.
Print Assumptions C14_built.

(* ================================================================== *)
(* 3. Positional paths from a field                                     *)

(* <SEG>_<i>_<j> under a field of complex datatype d = the component filed under <d>_<j>, the very
   entry that the name <d>_<j> designates.  Premise `path not a name`: the path is not itself a
   child name / long name / DATATYPES key (discharged for the shipped tables by the obligations:
   paths_clean), so find_child_reference answers ChildNotFound and the path is decoded. *)
Theorem C14_positional_component t lvl f fname a b j d st ce :
  f_name f = Some fname -> upper fname = fname -> bsplit US fname = [a; b] ->
  f_dt f = Some d -> base t (Some d) = false -> is_varies (Some d) = false -> upper d = d ->
  f_st f = Some st -> has_map_st st = true -> NoDup (map fst (st_by_name st)) ->
  field_find_child_reference t f (name_idx fname j) = Err (HL7 EChildNotFound) ->
  In (name_idx d j, ce) (st_by_name st) ->
  resolve t lvl (PField f) (name_idx fname j) = Ok (TChild ce)
  /\ resolve t lvl (PField f) (name_idx d j) = Ok (TChild ce).
Proof. apply positional_component. Qed.
Print Assumptions C14_positional_component.

(* <SEG>_<i>_<j>_<k> = the subcomponent filed under <d2>_<k> in component j (of datatype d2), the
   very entry that <d2>_<k> designates under that component *)
Theorem C14_positional_subcomponent t lvl f fname a b j k d st ce i2 d2 c st2 se :
  f_name f = Some fname -> upper fname = fname -> bsplit US fname = [a; b] ->
  f_dt f = Some d -> base t (Some d) = false -> is_varies (Some d) = false -> upper d = d ->
  f_st f = Some st -> has_map_st st = true -> NoDup (map fst (st_by_name st)) ->
  field_find_child_reference t f (name_idx (name_idx fname j) k) = Err (HL7 EChildNotFound) ->
  In (name_idx d j, ce) (st_by_name st) ->
  ref_info (se_ref ce) = Some i2 -> i_dt i2 = Some d2 -> upper d2 = d2 ->
  component_of_entry t lvl ce = Ok c -> c_st c = Some st2 -> has_map_st st2 = true ->
  NoDup (map fst (st_by_name st2)) -> In (name_idx d2 k, se) (st_by_name st2) ->
  resolve t lvl (PField f) (name_idx (name_idx fname j) k) = Ok (TGrand ce se)
  /\ resolve t lvl (PComp c) (name_idx d2 k) = Ok (TChild se).
Proof. apply positional_subcomponent. Qed.
Print Assumptions C14_positional_subcomponent.

(* a field of base datatype has one component, named like the datatype: only <SEG>_<i>_1 exists *)
Theorem C14_positional_base t lvl f fname a b d :
  f_name f = Some fname -> upper fname = fname -> bsplit US fname = [a; b] ->
  f_dt f = Some d -> base t (Some d) = true -> bmem US d = false -> upper d = d -> guard_Field d = false ->
  resolve t lvl (PField f) (name_idx fname 1) = Ok (TChild (mk_sentry d (SLeaf (mk_info (Some d) None None (-1))) CMP))
  /\ (forall j, j <> 1 -> resolve t lvl (PField f) (name_idx fname j) = Err (HL7 EChildNotFound))
  /\ (forall j k, resolve t lvl (PField f) (name_idx (name_idx fname j) k) = Err (HL7 EChildNotFound)).
Proof. apply positional_base. Qed.
Print Assumptions C14_positional_base.

(* positional paths in any letter case *)
Theorem C14_positional_any_case t lvl f p j n :
  upper p = p -> upper n = name_idx p j ->
  resolve t lvl (PField f) n = resolve t lvl (PField f) (name_idx p j).
Proof.
  intros U E. apply C14_case.
  - now rewrite E, (name_idx_upper_id p j U).
  - rewrite E. cbn [cls_attrs_of]. apply digit_name_not_attr; [apply attrs_no_digit_Field|apply has_digit_name_idx].
Qed.
Print Assumptions C14_positional_any_case.

(* ================================================================== *)
(* 4. Names that designate nothing                                      *)

(* Segment: an Ok answer is an entry filed under that very name (as HL7 name or as long name); or,
   on an open-ended segment only, the entry <SEG>_<k> named exactly like the request.  Anything
   else is ChildNotFound or ChildNotValid. *)
Theorem C14_no_such_segment t s n :
  has_map_st (s_st s) = true ->
  match seg_find_child_reference t s n with
  | Ok e => filed_under (s_st s) (upper n) e
            \/ (s_inf s = true /\ valid_child_name (Some (upper n)) (Some (s_name s)) = true
                /\ se_name e = upper n /\ struct_lookup (s_st s) (upper n) = None)
  | Err x => not_such x /\ struct_lookup (s_st s) (upper n) = None
  end.
Proof. apply seg_find_answers. Qed.
Print Assumptions C14_no_such_segment.

(* Field / Component of complex datatype *)
Theorem C14_no_such_complex t st n :
  has_map_st st = true ->
  match complex_find_child_reference t (Some st) n with
  | Ok e => filed_under st (upper n) e
  | Err x => not_such x /\ struct_lookup st (upper n) = None
  end.
Proof. apply complex_find_answers. Qed.
Print Assumptions C14_no_such_complex.

(* Field of base datatype: the datatype's own name and nothing else *)
Theorem C14_no_such_base_field t f n :
  base t (f_dt f) = true ->
  match field_find_child_reference t f n with
  | Ok e => f_dt f = Some n /\ se_name e = n
  | Err x => x = HL7 EChildNotFound /\ f_dt f <> Some n
  end.
Proof. apply field_find_base. Qed.
Print Assumptions C14_no_such_base_field.

(* In a structure built from a reference: a name that is neither the HL7 name nor the long name of
   any row is refused by every parent that consults the structure (a segment: unless it is open-ended
   and the name is <SEG>_<k>) *)
Theorem C14_no_such t lvl p st vcs n :
  consults t p st -> built st vcs ->
  (forall vc, In vc vcs -> vc_name vc <> upper n) ->
  (forall vc, In vc vcs -> ref_long (vc_ref vc) <> Some (Some (upper n))) ->
  (forall s, p = PSeg s -> s_inf s = false \/ valid_child_name (Some (upper n)) (Some (s_name s)) = false) ->
  smem (upper n) (cls_attrs_of p) = false ->
  (forall f, p = PField f -> get_traversal_children (f_name f) n = None) ->
  exists x, resolve t lvl p n = Err x /\ not_such x.
Proof.
  intros C B Nn Nl Open G NP.
  pose proof (built_has_map _ _ B) as M.
  assert (L : struct_lookup st (upper n) = None).
  { apply struct_lookup_none.
    - intros K. apply in_map_iff in K. destruct K as [[k e] [E K]]. cbn [fst] in E. subst k.
      destruct (built_name_inv _ _ _ _ B K) as [vc (I & E & _)]. now apply (Nn vc I).
    - intros e K. destruct (built_long_inv _ _ _ _ B K) as [vc (I & R & _)]. now apply (Nl vc I). }
  destruct p as [s|f|c]; cbn [consults resolve cls_attrs_of] in *.
  - subst st. unfold seg_getattr. rewrite (guard_Segment_upper n G).
    unfold seg_find_child_reference. rewrite M, upper_idem, L. cbn [negb].
    assert (O : s_inf s && valid_child_name (Some (upper n)) (Some (s_name s)) = false).
    { destruct (Open s eq_refl) as [-> | ->]; [reflexivity|apply andb_false_r]. }
    rewrite O. destruct (slookup (upper n) (t_fields t)); eexists; (split; [reflexivity|]); [now right|now left].
  - destruct C as (Hst & Bf & V). unfold field_getattr.
    pose proof (complex_find_answers t st (upper n) M) as A. rewrite upper_idem in A.
    assert (F : field_find_child_reference t f (upper n) = complex_find_child_reference t (Some st) (upper n))
      by (now rewrite (field_find_complex t f _ Bf V), Hst).
    pose proof (guard_Field_upper n G) as Gd.
    destruct (complex_find_child_reference t (Some st) (upper n)) as [e|x] eqn:X.
    + exfalso. unfold complex_find_child_reference in X. rewrite M, upper_idem, L in X.
      destruct (slookup (upper n) (t_components t)); discriminate.
    + destruct A as [[->| ->] _]; eexists; (split; [|]).
      * apply traverse_not_path; [exact Gd|now rewrite F|exact (NP f eq_refl)].
      * now left.
      * apply traverse_find_err; [exact Gd|now rewrite F|discriminate].
      * now right.
  - unfold comp_getattr. rewrite (guard_Component_upper n G).
    pose proof (complex_find_answers t st (upper n) M) as A. rewrite upper_idem in A.
    unfold comp_find_child_reference. rewrite C.
    destruct (complex_find_child_reference t (Some st) (upper n)) as [e|x] eqn:X.
    + exfalso. unfold complex_find_child_reference in X. rewrite M, upper_idem, L in X.
      destruct (slookup (upper n) (t_components t)); discriminate.
    + exists x. split; [reflexivity|apply A].
Qed.
Print Assumptions C14_no_such.

(* ---- positions start at 1 and are written plainly (core.py:93 _valid_child_name) ---- *)

(* the child names of parent q are exactly <p>_<k> with k = 1, 2, ... written as str(k), p = q up to
   letter case: in particular no index 0, no sign, no leading zero, no blank *)
Theorem C14_child_names_are_positions c q :
  valid_child_name (Some c) (Some q) = true <->
  exists p k, k <> 0 /\ c = name_idx p k /\ upper p = upper q.
Proof. apply valid_child_name_iff. Qed.
Print Assumptions C14_child_names_are_positions.

(* an index that is not such a numeral names no child of any parent; <p>_0, <p>_-1, <p>_07, <p>_+1,
   "<p>_ 1", "<p>_1 ", <p>_00, <p>_-0 and <p>_ are instances (int() accepts all but the last) *)
Theorem C14_unplain_index_no_child :
  (forall c q p idx, rsplit_us c = Some (p, idx) -> plain_index idx = false -> valid_child_name (Some c) q = false)
  /\ (forall p q, forallb (fun idx => negb (valid_child_name (Some (p ++ unbs "_" ++ idx)) q)) unplain_suffixes = true)
  /\ unplain_suffixes = [unbs "0"; unbs "-1"; unbs "07"; unbs "+1"; unbs " 1"; unbs "1 "; unbs "00"; unbs "-0"; unbs ""].
Proof.
  split; [exact valid_child_name_unplain|]. split; [exact unplain_suffixes_refused|reflexivity].
Qed.
Print Assumptions C14_unplain_index_no_child.

(* EVERY segment, open-ended ones included (no premise on s_inf): a name <...>_<idx> whose index is not
   a plain numeral >= 1 and that is neither the HL7 name nor the long name of a row is refused.
   (Before the fix of _valid_child_name an open-ended segment took QPD_0, QPD_-1, QPD_07 as children.) *)
Theorem C14_no_such_unplain_index t lvl s vcs n p idx :
  built (s_st s) vcs ->
  (forall vc, In vc vcs -> vc_name vc <> upper n) ->
  (forall vc, In vc vcs -> ref_long (vc_ref vc) <> Some (Some (upper n))) ->
  smem (upper n) cls_attrs_Segment = false ->
  rsplit_us (upper n) = Some (p, idx) -> plain_index idx = false ->
  exists x, resolve t lvl (PSeg s) n = Err x /\ not_such x.
Proof.
  intros B Nn Nl G R P. apply (C14_no_such t lvl (PSeg s) (s_st s) vcs n); try assumption; try reflexivity.
  - intros s' [= <-]. right. exact (valid_child_name_unplain _ _ p idx R P).
  - intros f [=].
Qed.
Print Assumptions C14_no_such_unplain_index.

(* the same for a segment's own index 0 in particular, stated with name_idx *)
Theorem C14_no_such_position_0 t lvl s vcs :
  built (s_st s) vcs ->
  (forall vc, In vc vcs -> vc_name vc <> name_idx (upper (s_name s)) 0) ->
  (forall vc, In vc vcs -> ref_long (vc_ref vc) <> Some (Some (name_idx (upper (s_name s)) 0))) ->
  exists x, resolve t lvl (PSeg s) (name_idx (s_name s) 0) = Err x /\ not_such x.
Proof.
  intros B Nn Nl.
  assert (U : upper (name_idx (s_name s) 0) = name_idx (upper (s_name s)) 0) by apply name_idx_upper.
  apply (C14_no_such_unplain_index t lvl s vcs _ (upper (s_name s)) (nat_to_str 0)); try assumption.
  - now rewrite U.
  - now rewrite U.
  - rewrite U. apply digit_name_not_attr; [apply attrs_no_digit_Segment|apply has_digit_name_idx].
  - rewrite U. apply rsplit_us_name_idx.
  - reflexivity.
Qed.
Print Assumptions C14_no_such_position_0.

(* non-existent indices of positional paths: the answer of the component name is the answer *)
Theorem C14_no_such_component_index t lvl f fname a b j d :
  f_name f = Some fname -> upper fname = fname -> bsplit US fname = [a; b] ->
  f_dt f = Some d -> base t (Some d) = false -> upper d = d -> bmem US d = false ->
  field_find_child_reference t f (name_idx fname j) = Err (HL7 EChildNotFound) ->
  forall x, field_find_child_reference t f (name_idx d j) = Err x -> not_such x ->
  resolve t lvl (PField f) (name_idx fname j) = Err x.
Proof. apply positional_no_component. Qed.
Print Assumptions C14_no_such_component_index.

Theorem C14_no_such_subcomponent_index t lvl f fname a b j k d st ce i2 d2 c x :
  f_name f = Some fname -> upper fname = fname -> bsplit US fname = [a; b] ->
  f_dt f = Some d -> base t (Some d) = false -> is_varies (Some d) = false -> upper d = d ->
  f_st f = Some st -> has_map_st st = true -> NoDup (map fst (st_by_name st)) ->
  field_find_child_reference t f (name_idx (name_idx fname j) k) = Err (HL7 EChildNotFound) ->
  In (name_idx d j, ce) (st_by_name st) ->
  ref_info (se_ref ce) = Some i2 -> i_dt i2 = Some d2 ->
  component_of_entry t lvl ce = Ok c -> resolve t lvl (PComp c) (name_idx d2 k) = Err x ->
  resolve t lvl (PField f) (name_idx (name_idx fname j) k) = Err x.
Proof. apply positional_no_subcomponent. Qed.
Print Assumptions C14_no_such_subcomponent_index.

(* Fields of datatype `varies` (OBX_5, QPD_3, ...): <SEG>_<i>_<j>, j >= 1, is the component VARIES_<j>;
   position 0 is no position: <SEG>_<i>_0 is refused with ChildNotFound (VARIES_0 is no child name since
   _valid_child_name requires a plain index >= 1; premise: the tables define no datatype VARIES_0); and a
   subcomponent path <SEG>_<i>_<j>_<k> designates nothing -- the field has no component structure to
   decode <k> against -- and is refused with ChildNotFound.  (Before hl7apy commit 0d2eed5 the lookup
   self.structure_by_name[component_name] raised TypeError here; the model followed the fix.) *)
Theorem C14_no_such_varies t lvl f fname a b :
  f_name f = Some fname -> upper fname = fname -> bsplit US fname = [a; b] ->
  f_dt f = Some (unbs "varies") -> base t (Some (unbs "varies")) = false ->
  (forall st, f_st f = Some st -> has_map_st st = false) ->
  (forall j, j <> 0 -> field_find_child_reference t f (name_idx fname j) = Err (HL7 EChildNotFound) ->
             resolve t lvl (PField f) (name_idx fname j) =
             Ok (TChild (mk_sentry (name_idx (unbs "VARIES") j) varies_leaf CMP)))
  /\ (slookup (name_idx (unbs "VARIES") 0) (t_components t) = None ->
      field_find_child_reference t f (name_idx fname 0) = Err (HL7 EChildNotFound) ->
      resolve t lvl (PField f) (name_idx fname 0) = Err (HL7 EChildNotFound))
  /\ (forall j k, field_find_child_reference t f (name_idx (name_idx fname j) k) = Err (HL7 EChildNotFound) ->
                  resolve t lvl (PField f) (name_idx (name_idx fname j) k) = Err (HL7 EChildNotFound)).
Proof. apply positional_varies. Qed.
Print Assumptions C14_no_such_varies.

(* the premises hold of OBX_5 of v2.5 *)
Theorem C14_no_such_varies_witness :
  exists s f, parent_segment Gen.Tables_v2_5.tables (unbs "OBX") = Ok s /\
              parent_field Gen.Tables_v2_5.tables TOLERANT s (unbs "OBX_5") = Ok f /\
              is_varies (f_dt f) = true /\
              resolve Gen.Tables_v2_5.tables TOLERANT (PField f) (unbs "obx_5_1_1") = Err (HL7 EChildNotFound) /\
              resolve Gen.Tables_v2_5.tables TOLERANT (PField f) (unbs "obx_5_1") =
                Ok (TChild (mk_sentry (unbs "VARIES_1") varies_leaf CMP)) /\
              slookup (name_idx (unbs "VARIES") 0) (t_components Gen.Tables_v2_5.tables) = None /\
              resolve Gen.Tables_v2_5.tables TOLERANT (PField f) (unbs "obx_5_0") = Err (HL7 EChildNotFound).
Proof.
  destruct (parent_segment Gen.Tables_v2_5.tables (unbs "OBX")) as [s|] eqn:S; [|vm_compute in S; discriminate].
  destruct (parent_field Gen.Tables_v2_5.tables TOLERANT s (unbs "OBX_5")) as [f|] eqn:Fd.
  - exists s, f. split; [reflexivity|]. split; [exact Fd|].
    vm_compute in S. injection S as <-. vm_compute in Fd. injection Fd as <-.
    split; [reflexivity|]. repeat split; vm_compute; reflexivity.
  - exfalso. vm_compute in S. injection S as <-. vm_compute in Fd. discriminate.
Qed.
Print Assumptions C14_no_such_varies_witness.

(* ================================================================== *)
(* 5. The finite obligations of every supported version                 *)

Theorem C14_all_tables : forallb (fun p => report_fine (report (snd p) TOLERANT)) all_tables = true.
Proof.
  unfold all_tables. cbn [forallb snd].
  change (report Gen.Tables_v2_1.tables TOLERANT) with Oblig.C14_v2_1.rep_v2_1.
  change (report Gen.Tables_v2_2.tables TOLERANT) with Oblig.C14_v2_2.rep_v2_2.
  change (report Gen.Tables_v2_3.tables TOLERANT) with Oblig.C14_v2_3.rep_v2_3.
  change (report Gen.Tables_v2_3_1.tables TOLERANT) with Oblig.C14_v2_3_1.rep_v2_3_1.
  change (report Gen.Tables_v2_4.tables TOLERANT) with Oblig.C14_v2_4.rep_v2_4.
  change (report Gen.Tables_v2_5.tables TOLERANT) with Oblig.C14_v2_5.rep_v2_5.
  change (report Gen.Tables_v2_5_1.tables TOLERANT) with Oblig.C14_v2_5_1.rep_v2_5_1.
  change (report Gen.Tables_v2_6.tables TOLERANT) with Oblig.C14_v2_6.rep_v2_6.
  change (report Gen.Tables_v2_7.tables TOLERANT) with Oblig.C14_v2_7.rep_v2_7.
  change (report Gen.Tables_v2_8.tables TOLERANT) with Oblig.C14_v2_8.rep_v2_8.
  change (report Gen.Tables_v2_8_1.tables TOLERANT) with Oblig.C14_v2_8_1.rep_v2_8_1.
  change (report Gen.Tables_v2_8_2.tables TOLERANT) with Oblig.C14_v2_8_2.rep_v2_8_2.
  rewrite Oblig.C14_v2_1.C14_fine_v2_1, Oblig.C14_v2_2.C14_fine_v2_2, Oblig.C14_v2_3.C14_fine_v2_3,
    Oblig.C14_v2_3_1.C14_fine_v2_3_1, Oblig.C14_v2_4.C14_fine_v2_4, Oblig.C14_v2_5.C14_fine_v2_5,
    Oblig.C14_v2_5_1.C14_fine_v2_5_1, Oblig.C14_v2_6.C14_fine_v2_6, Oblig.C14_v2_7.C14_fine_v2_7,
    Oblig.C14_v2_8.C14_fine_v2_8, Oblig.C14_v2_8_1.C14_fine_v2_8_1, Oblig.C14_v2_8_2.C14_fine_v2_8_2.
  reflexivity.
Qed.
Print Assumptions C14_all_tables.

Lemma C14_tables_of v t : tables_of v = Some t -> report_fine (report t TOLERANT) = true.
Proof.
  unfold tables_of. intros H.
  assert (G : forall l, forallb (fun p : str * tables => report_fine (report (snd p) TOLERANT)) l = true ->
              slookup v l = Some t -> report_fine (report t TOLERANT) = true).
  { induction l as [|[k x] l IH]; cbn; [discriminate|].
    intros Hl. apply andb_prop in Hl. destruct Hl as [Hx Hl].
    destruct (leqb beqb v k); [intros E; injection E as <-; exact Hx | now apply IH]. }
  exact (G _ C14_all_tables H).
Qed.

(* the exempt rows of every version, visible in the statement: rows whose long name is NOT claimed
   to address them (long name shared within the parent, equal to a child name, or equal to an
   attribute name of the class), as (field rows of segments, component rows of datatypes,
   subcomponent rows of component parents) *)
Theorem C14_exempt_rows_all :
  map (fun p => (BS (fst p), exempt_rows (report (snd p) TOLERANT))) all_tables =
  [ ("2.1", (1, 0, 0)); ("2.2", (2, 2, 0)); ("2.3", (2, 4, 0)); ("2.3.1", (3, 6, 0)); ("2.4", (3, 6, 0));
    ("2.5", (4, 2, 0)); ("2.5.1", (10, 2, 0)); ("2.6", (9, 2, 0)); ("2.7", (15, 8, 6)); ("2.8", (11, 8, 6));
    ("2.8.1", (11, 8, 6)); ("2.8.2", (13, 8, 6)) ]%N.
Proof.
  unfold all_tables. cbn [map fst snd].
  change (report Gen.Tables_v2_1.tables TOLERANT) with Oblig.C14_v2_1.rep_v2_1.
  change (report Gen.Tables_v2_2.tables TOLERANT) with Oblig.C14_v2_2.rep_v2_2.
  change (report Gen.Tables_v2_3.tables TOLERANT) with Oblig.C14_v2_3.rep_v2_3.
  change (report Gen.Tables_v2_3_1.tables TOLERANT) with Oblig.C14_v2_3_1.rep_v2_3_1.
  change (report Gen.Tables_v2_4.tables TOLERANT) with Oblig.C14_v2_4.rep_v2_4.
  change (report Gen.Tables_v2_5.tables TOLERANT) with Oblig.C14_v2_5.rep_v2_5.
  change (report Gen.Tables_v2_5_1.tables TOLERANT) with Oblig.C14_v2_5_1.rep_v2_5_1.
  change (report Gen.Tables_v2_6.tables TOLERANT) with Oblig.C14_v2_6.rep_v2_6.
  change (report Gen.Tables_v2_7.tables TOLERANT) with Oblig.C14_v2_7.rep_v2_7.
  change (report Gen.Tables_v2_8.tables TOLERANT) with Oblig.C14_v2_8.rep_v2_8.
  change (report Gen.Tables_v2_8_1.tables TOLERANT) with Oblig.C14_v2_8_1.rep_v2_8_1.
  change (report Gen.Tables_v2_8_2.tables TOLERANT) with Oblig.C14_v2_8_2.rep_v2_8_2.
  rewrite Oblig.C14_v2_1.C14_exempt_rows_v2_1, Oblig.C14_v2_2.C14_exempt_rows_v2_2, Oblig.C14_v2_3.C14_exempt_rows_v2_3,
    Oblig.C14_v2_3_1.C14_exempt_rows_v2_3_1, Oblig.C14_v2_4.C14_exempt_rows_v2_4, Oblig.C14_v2_5.C14_exempt_rows_v2_5,
    Oblig.C14_v2_5_1.C14_exempt_rows_v2_5_1, Oblig.C14_v2_6.C14_exempt_rows_v2_6, Oblig.C14_v2_7.C14_exempt_rows_v2_7,
    Oblig.C14_v2_8.C14_exempt_rows_v2_8, Oblig.C14_v2_8_1.C14_exempt_rows_v2_8_1, Oblig.C14_v2_8_2.C14_exempt_rows_v2_8_2.
  reflexivity.
Qed.
Print Assumptions C14_exempt_rows_all.

(* ---- what report_fine says, row by row and in any letter case ---- *)

(* every segment of every version: every field row is reached by its HL7 name in any letter case,
   and by its long name in any letter case unless the row is exempt (classify_long <> LOk) *)
Theorem C14_segments_all_versions v t name r :
  tables_of v = Some t -> In (name, r) (t_segments t) -> name <> unbs "ANYHL7SEGMENT" ->
  exists s, parent_segment t name = Ok s /\
    forall e, In e (entries (s_st s)) ->
      (forall n, upper n = se_name e ->
         exists e', resolve t TOLERANT (PSeg s) n = Ok (TChild e') /\ se_name e' = se_name e) /\
      (forall l, classify_long reserved_Segment (entries (s_st s)) e = LOk l ->
         forall n, upper n = upper l ->
           exists e', resolve t TOLERANT (PSeg s) n = Ok (TChild e') /\ se_name e' = se_name e).
Proof.
  intros T I N. pose proof (C14_tables_of v t T) as F.
  destruct (report_fine_parts t TOLERANT F) as (S & _).
  assert (I' : In (name, r) (real_segments t)).
  { unfold real_segments. apply filter_In. split; [exact I|]. cbn [fst].
    destruct (streqb_spec name (unbs "ANYHL7SEGMENT")); [contradiction|reflexivity]. }
  destruct (check_segment_spec t TOLERANT (name, r) (S _ I')) as (s & P & _ & _ & _ & R).
  exists s. split; [exact P|]. intros e Ie.
  exact (reached_any_case t TOLERANT (PSeg s) _ _ e attrs_reserved_Segment (R e Ie)).
Qed.
Print Assumptions C14_segments_all_versions.

(* every complex datatype of every version, under a field of that datatype: every component row *)
Theorem C14_datatypes_all_versions v t d rows :
  tables_of v = Some t -> In (d, rows) (t_structs t) ->
  exists f st, struct_field t d = Ok f /\ f_st f = Some st /\
    forall e, In e (entries st) ->
      (forall n, upper n = se_name e ->
         exists e', resolve t TOLERANT (PField f) n = Ok (TChild e') /\ se_name e' = se_name e) /\
      (forall l, classify_long reserved_Field (entries st) e = LOk l ->
         forall n, upper n = upper l ->
           exists e', resolve t TOLERANT (PField f) n = Ok (TChild e') /\ se_name e' = se_name e).
Proof.
  intros T I. pose proof (C14_tables_of v t T) as F.
  destruct (report_fine_parts t TOLERANT F) as (_ & S & _).
  destruct (check_struct_spec t TOLERANT _ (d, rows) (S _ I)) as (f & st & P & Hst & _ & _ & _ & _ & _ & _ & R).
  exists f, st. split; [exact P|]. split; [exact Hst|]. intros e Ie.
  exact (reached_any_case t TOLERANT (PField f) _ _ e attrs_reserved_Field (R e Ie)).
Qed.
Print Assumptions C14_datatypes_all_versions.

(* every component parent (DATATYPES entry) of every version: every subcomponent row *)
Theorem C14_components_all_versions v t cname r :
  tables_of v = Some t -> In (cname, r) (t_components t) ->
  exists c, component_of_entry t TOLERANT (mk_sentry cname r CMP) = Ok c /\
    forall st, c_st c = Some st -> has_map_st st = true ->
    forall e, In e (entries st) ->
      (forall n, upper n = se_name e ->
         exists e', resolve t TOLERANT (PComp c) n = Ok (TChild e') /\ se_name e' = se_name e) /\
      (forall l, classify_long reserved_Component (entries st) e = LOk l ->
         forall n, upper n = upper l ->
           exists e', resolve t TOLERANT (PComp c) n = Ok (TChild e') /\ se_name e' = se_name e).
Proof.
  intros T I. pose proof (C14_tables_of v t T) as F.
  destruct (report_fine_parts t TOLERANT F) as (_ & _ & S & _).
  destruct (check_component_spec t TOLERANT (cname, r) (S _ I)) as (c & P & R).
  exists c. split; [exact P|]. intros st Hst M e Ie. destruct (R st Hst M) as [_ R'].
  exact (reached_any_case t TOLERANT (PComp c) _ _ e attrs_reserved_Component (R' e Ie)).
Qed.
Print Assumptions C14_components_all_versions.

(* every field parent of every version (every FIELDS entry and every inline segment row) of complex
   datatype d: no positional path of the field is itself a name, and <SEG>_<i>_<j> designates the very
   component entry that <d>_<j> designates, for every j that has one *)
Theorem C14_positional_all_versions v t fname i d :
  tables_of v = Some t -> In (fname, SSeqDt i) (field_parents t) -> i_dt i = Some d ->
  exists f st,
    mk_field t TOLERANT (Some fname) None (Some (SSeqDt i)) = Ok f /\ f_st f = Some st /\
    (forall j, field_find_child_reference t f (name_idx fname j) = Err (HL7 EChildNotFound)) /\
    (forall j k, field_find_child_reference t f (name_idx (name_idx fname j) k) = Err (HL7 EChildNotFound)) /\
    (forall j ce, In (name_idx d j, ce) (st_by_name st) ->
       resolve t TOLERANT (PField f) (name_idx fname j) = Ok (TChild ce) /\
       resolve t TOLERANT (PField f) (name_idx d j) = Ok (TChild ce)).
Proof.
  intros T I D. pose proof (C14_tables_of v t T) as F.
  destruct (report_fine_parts t TOLERANT F) as (_ & S & _ & FP & PC).
  pose proof (FP _ I) as OKp. unfold field_parent_ok in OKp. cbn [fst snd] in OKp. rewrite D in OKp.
  apply andb_prop in OKp. destruct OKp as [OKp Sh]. apply andb_prop in OKp. destruct OKp as [U Len].
  apply streqb_eq in U. apply Nat.eqb_eq in Len.
  apply andb_prop in Sh. destruct Sh as [Sh V]. apply andb_prop in Sh. destruct Sh as [HS B].
  apply negb_true_iff in B, V.
  destruct (bsplit US fname) as [|a [|b [|c l]]] eqn:Sp; try discriminate Len.
  unfold has_struct in HS. destruct (slookup d (t_structs t)) as [rows|] eqn:Ld; [|discriminate].
  apply slookup_In in Ld.
  destruct (check_struct_spec t TOLERANT _ (d, rows) (S _ Ld)) as (f0 & st0 & SF & Hst0 & M0 & K0 & _ & _ & Ud & SC & _).
  cbn [fst] in SF, Ud. unfold struct_field in SF.
  destruct (parse_structure t (SSeqDt (mk_info (Some d) None None (-1)))) as [st1|] eqn:P0; [|discriminate].
  injection SF as <-. cbn [f_st] in Hst0. injection Hst0 as ->.
  destruct (parse_structure_dt t i (mk_info (Some d) None None (-1)) st0 D P0) as (st & P & Info & O & N & L).
  pose proof (mk_field_with_ref t TOLERANT fname (SSeqDt i) st P) as MF. rewrite U in MF.
  assert (Dt : st_dt (Some st) = Some d) by (unfold st_dt; now rewrite Info).
  rewrite Dt in MF.
  set (f := mk_field_rec (Some fname) (Some d) (Some st) []) in *.
  assert (M : has_map_st st = true) by (unfold has_map_st in *; now rewrite O).
  assert (ND : NoDup (map fst (st_by_name st))) by (rewrite N; now apply keys_ok_NoDup).
  assert (In_f : In fname (map fst (field_parents t))) by (change fname with (fst (fname, SSeqDt i)); now apply in_map).
  unfold paths_clean in PC.
  assert (H1 : forall j, field_find_child_reference t f (name_idx fname j) = Err (HL7 EChildNotFound)).
  { intros j. apply (clean_path_not_found t (map fst (field_parents t)) f st st0); try assumption; try reflexivity.
    - eapply path_shaped_comp; eauto.
    - now apply name_idx_upper_id. }
  assert (H2 : forall j k, field_find_child_reference t f (name_idx (name_idx fname j) k) = Err (HL7 EChildNotFound)).
  { intros j k. apply (clean_path_not_found t (map fst (field_parents t)) f st st0); try assumption; try reflexivity.
    - eapply path_shaped_sub; eauto.
    - now apply name_idx_upper_id, name_idx_upper_id. }
  exists f, st. split; [exact MF|]. split; [reflexivity|]. split; [exact H1|]. split; [exact H2|].
  intros j ce Ice.
  apply (positional_component t TOLERANT f fname a b j d st ce); try assumption; try reflexivity. apply H1.
Qed.
Print Assumptions C14_positional_all_versions.

(* a field resolves names and long names like the representative field of its datatype: the answer
   of find_child_reference depends on the field only through its datatype and its two maps *)
Theorem C14_field_like_datatype t f g n :
  f_dt f = f_dt g -> same_maps (f_st f) (f_st g) ->
  field_find_child_reference t f n = field_find_child_reference t g n.
Proof. apply field_find_same_maps. Qed.
Print Assumptions C14_field_like_datatype.

(* every segment of every version, the open-ended ones (QPD, RDF, ...) included: <SEG>_0, <SEG>_-1,
   <SEG>_07 and <SEG>_+1, in upper and lower case, designate nothing (ChildNotFound / ChildNotValid).
   Part of the per-version obligations (check_segment: unplain_refused). *)
Theorem C14_unplain_index_all_versions v t name r :
  tables_of v = Some t -> In (name, r) (t_segments t) -> name <> unbs "ANYHL7SEGMENT" ->
  exists s, parent_segment t name = Ok s /\
    forall sfx, In sfx [unbs "_0"; unbs "_-1"; unbs "_07"; unbs "_+1"] ->
    forall n, n = name ++ sfx \/ n = lower name ++ sfx ->
    exists x, resolve t TOLERANT (PSeg s) n = Err x /\ not_such x.
Proof.
  intros T I N. pose proof (C14_tables_of v t T) as F.
  destruct (report_fine_parts t TOLERANT F) as (S & _).
  assert (I' : In (name, r) (real_segments t)).
  { unfold real_segments. apply filter_In. split; [exact I|]. cbn [fst].
    destruct (streqb_spec name (unbs "ANYHL7SEGMENT")); [contradiction|reflexivity]. }
  destruct (check_segment_spec t TOLERANT (name, r) (S _ I')) as (s & P & _ & _ & Un & _).
  exists s. split; [exact P|]. exact (unplain_refused_spec t TOLERANT s name Un).
Qed.
Print Assumptions C14_unplain_index_all_versions.

(* ... and QPD of v2.5 is an open-ended segment among them: QPD_7 is a child, QPD_07 is none *)
Theorem C14_unplain_index_witness :
  exists s, parent_segment Gen.Tables_v2_5.tables (unbs "QPD") = Ok s /\ s_inf s = true /\
            target_obs (resolve Gen.Tables_v2_5.tables TOLERANT (PSeg s) (unbs "qpd_7")) = (0, unbs "QPD_7", []) /\
            resolve Gen.Tables_v2_5.tables TOLERANT (PSeg s) (unbs "qpd_07") = Err (HL7 EChildNotFound) /\
            resolve Gen.Tables_v2_5.tables TOLERANT (PSeg s) (unbs "qpd_0") = Err (HL7 EChildNotFound) /\
            resolve Gen.Tables_v2_5.tables TOLERANT (PSeg s) (unbs "qpd_-1") = Err (HL7 EChildNotFound).
Proof.
  destruct (parent_segment Gen.Tables_v2_5.tables (unbs "QPD")) as [s|] eqn:S; [|vm_compute in S; discriminate].
  exists s. split; [reflexivity|]. vm_compute in S. injection S as <-.
  repeat split; vm_compute; reflexivity.
Qed.
Print Assumptions C14_unplain_index_witness.

(* ================================================================== *)
(* 6. Examples: the hypotheses are satisfiable, on the v2.5 tables      *)

Definition t25 := Gen.Tables_v2_5.tables.
Definition q_seg (sn n : bs) : nat * bs * bs :=
  match parent_segment t25 sn with
  | Ok s => let '(a, b, c) := target_obs (resolve t25 TOLERANT (PSeg s) n) in (a, BS b, BS c)
  | Err x => (900 + exn_code x, BS [], BS [])
  end.
Definition q_field (sn fn n : bs) : nat * bs * bs :=
  match parent_segment t25 sn with
  | Ok s => match parent_field t25 TOLERANT s fn with
            | Ok f => let '(a, b, c) := target_obs (resolve t25 TOLERANT (PField f) n) in (a, BS b, BS c)
            | Err x => (800 + exn_code x, BS [], BS [])
            end
  | Err x => (900 + exn_code x, BS [], BS [])
  end.

(* name / long name / letter case *)
Example ex_names :
  map (q_seg "PID") ["pid_3"; "PID_3"; "Pid_3"; "patient_identifier_list"; "PATIENT_Identifier_LIST"]
  = [(0, "PID_3", ""); (0, "PID_3", ""); (0, "PID_3", ""); (0, "PID_3", ""); (0, "PID_3", "")]%bs.
Proof. vm_compute. reflexivity. Qed.
(* an attribute name is not a child; another parent's child is ChildNotValid (105), no child ChildNotFound (104);
   an open-ended segment takes <SEG>_<k> only *)
Example ex_no_such :
  [q_seg "PID" "value"; q_seg "PID" "evn_1"; q_seg "PID" "pid_999"; q_seg "QPD" "qpd_99"; q_seg "QPD" "pid_99";
   q_seg "QPD" "qpd_x"]
  = [(2, "", ""); (105, "", ""); (104, "", ""); (0, "QPD_99", ""); (104, "", ""); (104, "", "")]%bs.
Proof. vm_compute. reflexivity. Qed.
(* ... written plainly, from 1 *)
Example ex_no_such_unplain :
  [q_seg "QPD" "qpd_0"; q_seg "QPD" "qpd_-1"; q_seg "QPD" "qpd_07"; q_seg "QPD" "qpd_+7"; q_seg "QPD" "qpd_7";
   q_field "OBX" "obx_5" "obx_5_0"; q_field "OBX" "obx_5" "varies_0"; q_field "OBX" "obx_5" "varies_2"]
  = [(104, "", ""); (104, "", ""); (104, "", ""); (104, "", ""); (0, "QPD_7", "");
     (104, "", ""); (104, "", ""); (0, "VARIES_2", "")]%bs.
Proof. vm_compute. reflexivity. Qed.
(* positional paths *)
Example ex_positional :
  map (q_field "PID" "pid_3") ["pid_3_4"; "cx_4"; "assigning_authority"; "PID_3_4_1"; "pid_3_99"; "pid_3_4_9"; "ce_1"; "pid_3"; "pid_3_1_1_1"]
  = [(0, "CX_4", ""); (0, "CX_4", ""); (0, "CX_4", ""); (1, "CX_4", "HD_1"); (104, "", ""); (104, "", ""); (105, "", "");
     (104, "", ""); (104, "", "")]%bs.
Proof. vm_compute. reflexivity. Qed.
Example ex_positional_base :
  map (q_field "PID" "pid_1") ["pid_1_1"; "si"; "pid_1_2"; "pid_1_1_1"]
  = [(0, "SI", ""); (0, "SI", ""); (104, "", ""); (104, "", "")]%bs.
Proof. vm_compute. reflexivity. Qed.
