(* C10 - the element tree stays internally consistent through any API history.

   Model: coq/Model/Heap.v (Segment -> Field -> Component -> SubComponent; Group / Message parents are
   outside the model).  Invariant: Proofs/HeapInv.v `Inv`:
     I_parent  every child listed by an element reports that element as its parent
               (hence: listed by no other element - C10_one_parent),
     I_nodup   ... and is listed once,
     I_index   the by-name index is the child list grouped by name, in order,
     I_level   one validation level and one version along parent edges,
     I_trav    traversal children are indexed once, under their own name, and are NOT listed,
     I_bound / I_tbound  everything listed or pointed at is allocated.

   The full statement "Inv is preserved by EVERY operation" is false of the faithful model (and of
   hl7apy): C10_step_refuted (F8: re-attaching a listed element, adding a child twice, clearing the
   parent of a listed element).
   C10_step_partial proves preservation - for successful AND raising calls, all heaps, all
   operations - under `op_safe`: element arguments are detached and an element is not assigned
   through a positional path.  *)
From Coq Require Import List Bool Arith Lia ZArith NArith Init.Byte.
From HL7 Require Import Lib.Str Model.Ec Model.Result Model.Ref Model.Tree Model.Leaf Model.Heap Gen.Params.
From HL7 Require Import Proofs.HeapFacts Proofs.HeapInv Proofs.HeapOps Proofs.HeapSteps Proofs.HeapStep.
From HL7 Require Gen.Tables_v2_5.
Import ListNotations.
Open Scope bs_scope.

(* ---------- the invariant holds initially and of every constructor ---------- *)

Theorem C10_init : RInv init_rstate.
Proof. exact RInv_init. Qed.
Print Assumptions C10_init.

(* ---------- one step: successful or rejected ---------- *)

Theorem C10_step_partial :
  forall (t : tables) (e : ec) (le : level -> option str -> str -> result str) (r : rstate) (o : op),
    RInv r -> op_safe r o -> RInv (fst (fst (step t e le false r o))).
Proof. exact step_inv. Qed.
Print Assumptions C10_step_partial.

(* the same for the model exactly as hl7apy runs (exotic = true), whenever the operation does not take
   one of the two exotic paths; the correspondence run of harness/c10.py checks on every history that
   it does not *)
Theorem C10_step_partial_hl7apy :
  forall (t : tables) (e : ec) (le : level -> option str -> str -> result str) (r : rstate) (o : op),
    step t e le true r o = step t e le false r o ->
    RInv r -> op_safe r o -> RInv (fst (fst (step t e le true r o))).
Proof. intros t e le r o E HR Hs. rewrite E. now apply step_inv. Qed.
Print Assumptions C10_step_partial_hl7apy.

(* ---------- all histories (unbounded), by induction over the operation list ---------- *)

Theorem C10_reachable_partial :
  forall (t : tables) (e : ec) (le : level -> option str -> str -> result str) (ops : list op) (r : rstate),
    RInv r -> hist_safe t e le r ops -> RInv (run_hist t e le false r ops).
Proof. intros t e le ops r. apply hist_inv. Qed.
Print Assumptions C10_reachable_partial.

Theorem C10_reachable_partial_hl7apy :
  forall (t : tables) (e : ec) (le : level -> option str -> str -> result str) (ops : list op),
    hist_plain t e le init_rstate ops -> hist_safe t e le init_rstate ops ->
    RInv (run_hist t e le true init_rstate ops).
Proof. intros t e le ops Hp Hs. rewrite run_plain by exact Hp. apply hist_inv; [exact RInv_init|exact Hs]. Qed.
Print Assumptions C10_reachable_partial_hl7apy.

(* ---------- consequences of the invariant: the views agree ---------- *)

(* listed by one parent only *)
Theorem C10_one_parent : forall s p q c,
  Inv s -> In c (n_list (getn s p)) -> In c (n_list (getn s q)) -> p = q.
Proof. exact Inv_one_parent. Qed.
Print Assumptions C10_one_parent.

(* lookup by name, positional lookup, iteration, len and containment are all functions of the one
   child list: the children of name k are the sub-list of that name, in order *)
Theorem C10_views_agree : forall s p k,
  Inv s ->
  let l := n_list (getn s p) in
  let byname := iget k (n_idx (getn s p)) in
  byname = filter (fun c => opt_eqb k (n_name (getn s c))) l /\
  length byname = length (filter (fun c => opt_eqb k (n_name (getn s c))) l) /\
  (forall i c, nth_error byname i = Some c -> In c l /\ n_name (getn s c) = k /\ n_parent (getn s c) = Some p) /\
  (forall c, In c l -> n_name (getn s c) = k -> In c byname) /\
  (forall c, memb c l = true <-> In c l) /\
  NoDup l.
Proof.
  intros s p k I l byname.
  assert (E : byname = filter (fun c => opt_eqb k (n_name (getn s c))) l) by apply (I_index s I).
  split; [exact E|]. split; [now rewrite E|]. split; [|split; [|split]].
  - intros i c Hn. apply nth_error_In in Hn. rewrite E in Hn. apply filter_In in Hn. destruct Hn as [Hl Hk].
    split; auto. split; [|now apply (I_parent s I)]. destruct (opt_eqb_spec k (n_name (getn s c))); congruence.
  - intros c Hl Hk. rewrite E. apply filter_In. split; auto. rewrite Hk. apply opt_eqb_refl.
  - intros c. apply memb_In.
  - apply (I_nodup s I).
Qed.
Print Assumptions C10_views_agree.

(* traversal children (created by reading) are never among the listed children *)
Theorem C10_traversal_unlisted : forall s p k c,
  Inv s -> In c (iget k (n_tidx (getn s p))) -> ~ In c (n_list (getn s p)) /\ n_name (getn s c) = k.
Proof.
  intros s p k c I H.
  assert (Hb : In (k, iget k (n_tidx (getn s p))) (n_tidx (getn s p))).
  { apply iget_In_binding. intros E. rewrite E in H. destruct H. }
  destruct (I_trav s I p) as (_ & T & _). destruct (T _ _ _ Hb H) as (A & B & _). auto.
Qed.
Print Assumptions C10_traversal_unlisted.

(* ---------- the full statement is false: F8 in the model (v2.5 tables) ---------- *)

Definition t25 := Gen.Tables_v2_5.tables.
Definition e25 : ec := mk_ec "|" "^" "~" "\" "&" None.
Definition le25 (l : level) := leaf_enc "2.5" l e25.
Definition run25 := run_hist t25 e25 le25 true init_rstate.
Definition pid3 : list str := [unbs "pid_3"].
Definition pid8 : list str := [unbs "pid_8"].

(* s1.pid_3 = 'A'; f = s1.pid_3[0] *)
Definition w_prefix : list op :=
  [ONewSeg TOLERANT "PID"; ONewSeg TOLERANT "PID"; OSetAttr 0 pid3 (HText "A"); OGrab 0 pid3 0].
(* s.add(f) *)
Definition w_prefix2 : list op :=
  [ONewSeg TOLERANT "PID"; ONewField TOLERANT (Some (unbs "PID_3")) None; OAdd 0 1].

(* a freshly constructed element is detached (the stores below hold fewer than five elements) *)
Ltac solve_quantified :=
  let q := fresh "q" in
  intros q; destruct q as [|[|[|[|[|q]]]]]; vm_compute; tauto.
Ltac solve_safe :=
  vm_compute; repeat split; try solve_quantified; try (repeat constructor).

(* F8a  s2.add(f) with f listed by s1: f is listed by both, and reports only s2 *)
Theorem C10_step_refuted_reattach :
  RInv (run25 w_prefix) /\ ~ RInv (fst (fst (step t25 e25 le25 true (run25 w_prefix) (OAdd 1 2)))).
Proof.
  split.
  - apply C10_reachable_partial_hl7apy; [vm_compute; repeat split|solve_safe].
  - intros [I _]. pose proof (Inv_one_parent _ 0 1 2 I) as H.
    assert (0 = 1) by (apply H; vm_compute; auto). discriminate.
Qed.
Print Assumptions C10_step_refuted_reattach.

(* F8b  s.add(f); s.add(f): f is listed twice *)
Theorem C10_step_refuted_add_twice :
  RInv (run25 w_prefix2) /\ ~ RInv (fst (fst (step t25 e25 le25 true (run25 w_prefix2) (OAdd 0 1)))).
Proof.
  split.
  - apply C10_reachable_partial_hl7apy; [vm_compute; repeat split|solve_safe].
  - intros [I _]. pose proof (I_nodup _ I 0) as H. vm_compute in H.
    inversion H as [|? ? Hn _]. apply Hn. now left.
Qed.
Print Assumptions C10_step_refuted_add_twice.

(* F8c  f.parent = None: f stays listed by s *)
Theorem C10_step_refuted_parent_none :
  RInv (run25 w_prefix2) /\ ~ RInv (fst (fst (step t25 e25 le25 true (run25 w_prefix2) (OSetParent 1 None)))).
Proof.
  split.
  - apply C10_reachable_partial_hl7apy; [vm_compute; repeat split|solve_safe].
  - intros [I _]. pose proof (I_parent _ I 0 1) as H. vm_compute in H.
    assert (E : None = Some 0) by (apply H; auto). discriminate.
Qed.
Print Assumptions C10_step_refuted_parent_none.

(* F20 (fixed by b690ba1): s.pid_8 = 'A'; s.pid_8 = IS('B') - the element for a datatype object is now
   built detached and attached like any other child; datatype-object values are covered by
   C10_step_partial (op_safe no longer excludes them).  The old witness now keeps the invariant and
   replaces in place: *)
Definition w_prefix3 : list op := [ONewSeg TOLERANT "PID"; OSetAttr 0 pid8 (HText "A")].
Example C10_datatype_object_instance :
  RInv (run25 (w_prefix3 ++ [OSetAttr 0 pid8 (HDt "IS" "B")])) /\
  to_er7 t25 e25 (r_store (run25 (w_prefix3 ++ [OSetAttr 0 pid8 (HDt "IS" "B")]))) 0 false = unbs "PID||||||||B".
Proof.
  split; [|vm_compute; reflexivity].
  apply C10_reachable_partial_hl7apy; [vm_compute; repeat split|solve_safe].
Qed.

(* the hypotheses of the partial theorems are satisfiable: a history with an assignment, a lazy
   traversal, a replacement, a rejected assignment and a deletion meets hist_safe and hist_plain *)
Example C10_hypotheses_satisfiable :
  let ops := [ONewSeg STRICT "PID"; OSetAttr 0 pid3 (HText "A^B");
              OReadValue 0 [unbs "pid_5"; unbs "xpn_1"];
              OSetAttr 0 pid3 (HText "C"); OSetAttr 0 [unbs "pid_1"] (HText "1^2");
              ODelAttr 0 pid3] in
  hist_safe t25 e25 le25 init_rstate ops /\ hist_plain t25 e25 le25 init_rstate ops.
Proof. vm_compute. repeat split; auto. Qed.
