(* C16 - MLLP: one framed request in, exactly one correctly routed reply out.
   Theorems only; proofs live in Proofs/MllpFacts.v.  The model (Model/Mllp.v) is what the server
   does with ONE connection; the three protocol bytes are the generated Gen/Params.v, so the
   statements are re-checked against /repo's consts.MLLP_ENCODING_CHARS on every run.

   Domain (see Model/Mllp.v): ASCII streams; a byte >= 128 in the line read means "cannot be
   decoded", which is true of CPython only for invalid UTF-8, so C16_reject_undecodable is stated
   for the bytes that occur in no UTF-8 text.  The client's bytes are followed by EOF or by silence
   (server time-out); neither can cause a handler call.  Handlers are abstract (`hb`).
   Not proved here but observed by harness/c16.py: that ThreadingTCPServer runs this function once
   per connection on that connection's own bytes (isolation between simultaneous clients). *)
From Coq Require Import List Bool Arith NArith Init.Byte Lia.
From HL7 Require Import Lib.Str Model.Result Model.Header Model.Mllp Proofs.MllpFacts Gen.Params.
Import ListNotations.
Open Scope bs_scope.

(* ---- the generated parameters are the MLLP block characters ---- *)
Theorem C16_params : mllp_sb = x0b /\ mllp_eb = x1c /\ mllp_cr = x0d.
Proof. repeat split; reflexivity. Qed.
Print Assumptions C16_params.

(* ---- framing: to_mllp() is start block + to_er7() + CR + end block + CR ---- *)
Theorem C16_frame : forall er7,
  to_mllp er7 = SB :: er7 ++ [MCR; EB; MCR] /\ to_mllp er7 = x0b :: er7 ++ [x0d; x1c; x0d].
Proof. intros er7. split; reflexivity. Qed.
Print Assumptions C16_frame.

(* ---- chunking: only the concatenation of the client's writes matters, and not the size of the
        first recv(3) - for all chunk lists, no bound ---- *)
Theorem C16_chunking_reader : forall k0 k0' chunks,
  1 <= k0 <= 3 -> 1 <= k0' <= 3 -> read_chunks k0 chunks = read_line k0' (concat chunks).
Proof.
  intros k0 k0' chunks K K'. rewrite read_chunks_k0 by exact K. symmetry. now apply read_line_k0.
Qed.
Print Assumptions C16_chunking_reader.

Theorem C16_chunking : forall H (handlers : list (str * H)) hb k0 k0' chunks chunks',
  1 <= k0 <= 3 -> 1 <= k0' <= 3 -> concat chunks = concat chunks' ->
  serve handlers hb k0 chunks = serve handlers hb k0' chunks'.
Proof.
  intros H handlers hb k0 k0' chunks chunks' K K' E.
  rewrite !serve_is_stream by assumption. now rewrite E.
Qed.
Print Assumptions C16_chunking.

(* ---- extraction: from a to_mllp frame the recogniser returns the payload + CR, i.e. exactly the
        bytes between start block and end block, precisely when the payload has no empty line ---- *)
Theorem C16_extract : forall p,
  extract (to_mllp p) = Some (p ++ [MCR]) <-> payload_ok p = true.
Proof.
  intros p. rewrite to_mllp_shape0. split.
  - intros E. apply extract_some_body_ok in E. now rewrite body_ok_payload_cr in E.
  - intros P. apply extract_frame. now rewrite body_ok_payload_cr.
Qed.
Print Assumptions C16_extract.

(* ... and the reader delivers exactly that frame to the recogniser (whatever follows it, however
   it is split) provided EB CR does not occur inside payload + CR *)
Theorem C16_extract_read : forall p extra k0 chunks,
  1 <= k0 <= 3 -> concat chunks = to_mllp p ++ extra ->
  payload_ok p = true -> has_end_seq (p ++ [MCR]) = false ->
  read_chunks k0 chunks = Some (to_mllp p) /\ extract (to_mllp p) = Some (p ++ [MCR]).
Proof.
  intros p extra k0 chunks K C P Hs. split; [|now apply C16_extract].
  rewrite read_chunks_k0, C, to_mllp_shape, to_mllp_shape0 by exact K. now apply read_line_frame.
Qed.
Print Assumptions C16_extract_read.

(* the usual wire contract (no EB byte in the payload) implies the second hypothesis *)
Theorem C16_no_eb_suffices : forall p, bmem EB p = false -> has_end_seq (p ++ [MCR]) = false.
Proof. exact has_end_seq_payload. Qed.
Print Assumptions C16_no_eb_suffices.

(* the same for a frame without the CR before the end block: SB payload EB CR *)
Theorem C16_extract_no_cr : forall p extra k0 chunks,
  1 <= k0 <= 3 -> concat chunks = SB :: p ++ [EB; MCR] ++ extra ->
  payload_ok p = true -> has_end_seq p = false ->
  read_chunks k0 chunks = Some (SB :: p ++ [EB; MCR]) /\ extract (SB :: p ++ [EB; MCR]) = Some p.
Proof.
  intros p extra k0 chunks K C P Hs. split.
  - rewrite read_chunks_k0, C by exact K. now apply read_line_frame.
  - apply extract_frame. now apply body_ok_payload.
Qed.
Print Assumptions C16_extract_no_cr.

(* ---- routing: exactly one invocation, the right one, and that handler's reply ---- *)
Section Routing.
Variable H : Type.
Variable handlers : list (str * H).
Variable hb : H -> option exn -> str -> result str.

(* a well-framed payload: p as above, ASCII, sent as to_mllp p (followed by anything), split anyhow *)
Definition well_framed (p : str) (k0 : nat) (chunks : list str) : Prop :=
  1 <= k0 <= 3 /\ (exists extra, concat chunks = to_mllp p ++ extra) /\
  payload_ok p = true /\ has_end_seq (p ++ [MCR]) = false /\ decodable p = true.

Lemma well_framed_route p k0 chunks :
  well_framed p k0 chunks -> serve handlers hb k0 chunks = route handlers hb (p ++ [MCR]).
Proof. intros (K & (extra & C) & P & Hs & D). eapply serve_mllp; eauto. Qed.

(* registered MSH-9: that handler, once, with the framed text; its reply; closed *)
Theorem C16_route_one : forall p k0 chunks mt h r,
  well_framed p k0 chunks ->
  get_message_type (p ++ [MCR]) = Ok (Some mt) -> slookup mt handlers = Some h ->
  hb h None (p ++ [MCR]) = Ok r ->
  serve handlers hb k0 chunks = mk_outcome [CallH mt h (p ++ [MCR])] (Some r) true.
Proof. intros p k0 chunks mt h r W G L B. rewrite (well_framed_route _ _ _ W). now apply route_registered. Qed.

(* unregistered (or absent) MSH-9: the ERR handler, once, with UnsupportedMessageType *)
Theorem C16_route_unsupported : forall p k0 chunks mt he r,
  well_framed p k0 chunks ->
  get_message_type (p ++ [MCR]) = Ok mt -> lookup_type handlers mt = None ->
  slookup err_key handlers = Some he ->
  hb he (Some (HL7 EUnsupportedMessageType)) (p ++ [MCR]) = Ok r ->
  serve handlers hb k0 chunks =
  mk_outcome [CallErr he (HL7 EUnsupportedMessageType) (p ++ [MCR])] (Some r) true.
Proof. intros p k0 chunks mt he r W G L E B. rewrite (well_framed_route _ _ _ W). eapply route_unsupported; eauto. Qed.

(* not an HL7 message (_split_msh raises ParserError): the ERR handler, once, with InvalidHL7Message *)
Theorem C16_route_invalid : forall p k0 chunks he r,
  well_framed p k0 chunks ->
  get_message_type (p ++ [MCR]) = Err (HL7 EParserError) ->
  slookup err_key handlers = Some he ->
  hb he (Some (HL7 EInvalidHL7Message)) (p ++ [MCR]) = Ok r ->
  serve handlers hb k0 chunks =
  mk_outcome [CallErr he (HL7 EInvalidHL7Message) (p ++ [MCR])] (Some r) true.
Proof. intros p k0 chunks he r W G E B. rewrite (well_framed_route _ _ _ W). now apply route_invalid. Qed.

(* ... which is the case of every payload that does not begin with MSH + a non-blank character *)
Theorem C16_non_hl7 : forall msg, msh_field_sep msg = None -> get_message_type msg = Err (HL7 EParserError).
Proof. exact not_msh_parser_error. Qed.

(* no ERR handler: nothing is invoked, nothing is written, the connection is closed *)
Theorem C16_route_no_err_handler : forall p k0 chunks,
  well_framed p k0 chunks -> slookup err_key handlers = None ->
  (exists e, get_message_type (p ++ [MCR]) = Err e) \/
  (exists mt, get_message_type (p ++ [MCR]) = Ok mt /\ lookup_type handlers mt = None) ->
  serve handlers hb k0 chunks = no_handler.
Proof.
  intros p k0 chunks W E [(e & G)|(mt & G & L)]; rewrite (well_framed_route _ _ _ W).
  - eapply route_failed_no_err; eauto.
  - eapply route_unsupported_no_err; eauto.
Qed.

(* whatever the bytes and the splitting: handlers that do not raise are invoked at most once per
   connection, a reply is written exactly when one was invoked, and the connection is closed *)
Theorem C16_at_most_one : forall k0 chunks,
  (forall h e p, is_ok (hb h e p) = true) ->
  (exists c r, serve handlers hb k0 chunks = mk_outcome [c] (Some r) true) \/
  serve handlers hb k0 chunks = no_handler.
Proof.
  intros k0 chunks NR. unfold serve, serve_line.
  destruct (read_chunks k0 chunks) as [l|]; [|now right].
  destruct (decodable l); [|now right]. destruct (extract l) as [msg|]; [|now right].
  now apply route_at_most_one.
Qed.

Theorem C16_closed : forall k0 chunks, closed (serve handlers hb k0 chunks) = true.
Proof. intros. apply serve_closed. Qed.

(* ---- rejection: zero invocations, nothing written, closed ---- *)

(* the input does not start with a start block (this includes the empty input) *)
Theorem C16_reject_no_start_block : forall k0 chunks,
  1 <= k0 <= 3 -> bstarts [SB] (concat chunks) = false -> serve handlers hb k0 chunks = no_handler.
Proof. intros. now apply serve_no_sb. Qed.

(* the input contains no EB CR at all ... *)
Theorem C16_reject_truncated : forall k0 chunks,
  1 <= k0 <= 3 -> has_end_seq (concat chunks) = false -> serve handlers hb k0 chunks = no_handler.
Proof. intros. now apply serve_no_end. Qed.

(* ... in particular every truncated frame: a proper prefix of to_mllp p *)
Theorem C16_reject_truncated_frame : forall p k0 chunks rest,
  1 <= k0 <= 3 -> has_end_seq (p ++ [MCR]) = false ->
  rest <> [] -> concat chunks ++ rest = to_mllp p -> serve handlers hb k0 chunks = no_handler.
Proof.
  intros p k0 chunks rest K Hs Nr E. apply serve_no_end; [exact K|].
  eapply frame_prefix_no_end; eauto.
Qed.

(* a complete frame SB b EB CR whose body fails the regex (empty, or with an empty line) *)
Theorem C16_reject_bad_body : forall b extra k0 chunks,
  1 <= k0 <= 3 -> concat chunks = SB :: b ++ [EB; MCR] ++ extra -> has_end_seq b = false ->
  body_ok b = false -> serve handlers hb k0 chunks = no_handler.
Proof.
  intros b extra k0 chunks K C Hs B. rewrite (serve_frame _ _ _ _ _ _ _ K C Hs), B.
  now rewrite andb_false_r.
Qed.

(* a complete frame containing a byte that occurs in no UTF-8 text *)
Theorem C16_reject_undecodable : forall b x extra k0 chunks,
  1 <= k0 <= 3 -> concat chunks = SB :: b ++ [EB; MCR] ++ extra -> has_end_seq b = false ->
  In x b -> never_utf8 x = true -> serve handlers hb k0 chunks = no_handler.
Proof.
  intros b x extra k0 chunks K C Hs I N. rewrite (serve_frame _ _ _ _ _ _ _ K C Hs).
  now rewrite (not_decodable_in x b I (never_utf8_not_ascii x N)).
Qed.

End Routing.
Print Assumptions C16_route_one.
Print Assumptions C16_route_unsupported.
Print Assumptions C16_route_invalid.
Print Assumptions C16_non_hl7.
Print Assumptions C16_route_no_err_handler.
Print Assumptions C16_at_most_one.
Print Assumptions C16_closed.
Print Assumptions C16_reject_no_start_block.
Print Assumptions C16_reject_truncated.
Print Assumptions C16_reject_truncated_frame.
Print Assumptions C16_reject_bad_body.
Print Assumptions C16_reject_undecodable.

(* ---- the EB hypothesis of C16_extract_read cannot be dropped: a payload whose last byte is EB is
        silently truncated by the reader (the line ends at the first EB CR) and the handler
        receives less than what was framed ---- *)
Definition ex_handlers : list (str * nat) := [("ADT^A01" : str, 1); ("ERR" : str, 0)].
Definition ex_hb (h : nat) (e : option exn) (p : str) : result str :=
  Ok (("ACK " : str) ++ nat_to_str h ++ (" " : str) ++ nat_to_str (match e with Some x => exn_code x | None => 0 end)).
Definition ex_payload : str := "MSH|^~\&|||||||ADT^A01|T1".

Theorem C16_eb_in_payload_truncates :
  let p := ex_payload ++ [MCR] ++ ("ZZZ|a" : str) ++ [EB] in
  payload_ok p = true /\ has_end_seq (p ++ [MCR]) = true /\
  calls (serve ex_handlers ex_hb 3 [to_mllp p]) =
  [CallH ("ADT^A01" : str) 1 (ex_payload ++ [MCR] ++ ("ZZZ|a" : str))].
Proof. vm_compute. repeat split. Qed.
Print Assumptions C16_eb_in_payload_truncates.

(* ---- non-vacuity: the hypotheses are met and the conclusions computed on concrete inputs ---- *)
Example C16_ex_well_framed :
  well_framed ex_payload 2 [[SB]; ("MSH|^~\&||" : str); ("|||||ADT^A01|T1" : str) ++ [MCR; EB]; [MCR]].
Proof. unfold well_framed. repeat split; try lia; try reflexivity. exists []. reflexivity. Qed.

Example C16_ex_registered :
  serve ex_handlers ex_hb 2 [[SB]; ("MSH|^~\&||" : str); ("|||||ADT^A01|T1" : str) ++ [MCR; EB]; [MCR]]
  = mk_outcome [CallH ("ADT^A01" : str) 1 (ex_payload ++ [MCR])] (Some ("ACK 1 0" : str)) true.
Proof. vm_compute. reflexivity. Qed.

Example C16_ex_unsupported :
  serve ex_handlers ex_hb 1 [to_mllp ("MSH|^~\&|||||||ORU^R01|T2" : str)]
  = mk_outcome [CallErr 0 (HL7 EUnsupportedMessageType) (("MSH|^~\&|||||||ORU^R01|T2" : str) ++ [MCR])]
               (Some ("ACK 0 18" : str)) true.
Proof. vm_compute. reflexivity. Qed.

Example C16_ex_invalid :
  serve ex_handlers ex_hb 3 [to_mllp ("hello" : str)]
  = mk_outcome [CallErr 0 (HL7 EInvalidHL7Message) (("hello" : str) ++ [MCR])] (Some ("ACK 0 19" : str)) true.
Proof. vm_compute. reflexivity. Qed.

Example C16_ex_no_err_handler :
  serve [("ADT^A01" : str, 1)] ex_hb 3 [to_mllp ("hello" : str)] = no_handler.
Proof. vm_compute. reflexivity. Qed.

Example C16_ex_rejects :
  serve ex_handlers ex_hb 3 [ex_payload ++ [MCR; EB; MCR]] = no_handler /\            (* no start block *)
  serve ex_handlers ex_hb 3 [[SB] ++ ex_payload; [MCR; EB]] = no_handler /\           (* truncated *)
  serve ex_handlers ex_hb 3 [[SB; EB; MCR]] = no_handler /\                            (* empty body *)
  serve ex_handlers ex_hb 3 [[SB] ++ ex_payload ++ [MCR; MCR; EB; MCR]] = no_handler /\ (* empty line *)
  serve ex_handlers ex_hb 3 [[SB] ++ ex_payload ++ [xff; MCR; EB; MCR]] = no_handler.  (* not UTF-8 *)
Proof. vm_compute. repeat split. Qed.
