(* C01 - ER7 parse -> encode is the identity on canonical text (TOLERANT level).
   Theorems only; proofs live in Proofs/SplitJoin.v, LevelCodec.v, RoundTripStr.v, RoundTripCore.v,
   RoundTripVT.v, RoundTripZ.v, RoundTripSeg.v, RoundTripTables.v.  All statements are about the model's own
   parse_segment / parse_field / parse_component and enc_segment / enc_field / enc_comp, for every
   valid delimiter set, every supported version's regenerated tables and unbounded inputs. *)
From Coq Require Import List Bool ZArith NArith Init.Byte.
From HL7 Require Import Lib.Str Model.Ec Model.Escape Model.Result Model.Ref Model.Tree Model.Parser Model.Encode
  Model.Leaf Model.Wf Model.Dump.
From HL7 Require Import Gen.Params Gen.Tables.
From HL7 Require Import Proofs.EscapeFacts Proofs.SplitJoin Proofs.LevelCodec Proofs.RoundTripStr Proofs.RoundTripCore
  Proofs.RoundTripVT Proofs.RoundTripZ Proofs.RoundTripTables.
Import ListNotations.
Open Scope bs_scope.

(* ---- the generic facts (C01_level of the design) ---- *)

Theorem C01_split_join : forall c l, l <> [] -> forallb (nosep beqb c) l = true -> bsplit c (bjoin c l) = l.
Proof. exact bsplit_bjoin. Qed.
Print Assumptions C01_split_join.

Theorem C01_join_split : forall c s, bjoin c (bsplit c s) = s.
Proof. exact bjoin_bsplit. Qed.
Print Assumptions C01_join_split.

(* numbering the pieces, keeping the non-empty ones as children named by the table (groups_ok),
   looking them up by name in table order, trimming the trailing empty slots and joining gives the
   pieces back (abstract child type A: subcomponents, components) *)
Theorem C01_level : forall (A : Type) (nm : A -> option str) (enc : A -> str) sep st ps gs,
  NoDup (ordered_of st) -> ~ In (unbs "ST") (ordered_of st) ->
  groups_ok nm (ordered_of st) gs -> Forall2 (piece_group enc) ps gs -> no_trail ps ->
  enc_slots enc sep (generic_slots nm st (concat gs)) = bjoin sep ps.
Proof. intros A nm enc. exact (level_codec nm enc). Qed.
Print Assumptions C01_level.

(* ---- Z-segments: every name Z??, every number of fields, repetitions, components, subcomponents ---- *)

(* the leaf condition: the ST leaf encoder (escape) returns the text unchanged *)
Definition st_fixed (v : str) (e : ec) (s : str) : Prop := leaf_enc v TOLERANT e (Some (unbs "ST")) s = Ok s.

Theorem C01_segment_Z : forall v t, tables_of v = Some t ->
  forall e, ec_ok e ->
  forall a b, bupper a = a -> bupper b = b ->
  forall vt : list vfield, canon_fields e (st_fixed v e) vt ->
  let text := render_seg e (zname a b) vt in
  exists s, parse_segment t TOLERANT e (leaf_enc v TOLERANT e) text None = Ok s /\
            enc_segment t e s false = Ok text.
Proof.
  intros v t Ht e He a b Ha Hb vt Hc text.
  destruct (shipped_table_facts v t Ht) as [Hst [Hvar [Hz _]]].
  assert (Hup : upper (zname a b) = zname a b) by (unfold zname, upper; cbn [map]; now rewrite Ha, Hb).
  assert (Hnf : forall i, slookup (name_idx (zname a b) i) (t_fields t) = None)
    by (intros i; now apply no_z_fields_lookup).
  exists (zseg e a b (map (render_field e) vt)).
  apply (z_roundtrip_vt t e (leaf_enc v TOLERANT e) Hst Hvar a b Hup Hnf He vt).
  revert Hc. apply canon_fields_impl. intros s Hs. now right.
Qed.
Print Assumptions C01_segment_Z.

(* the same on field TEXTS: inside a Z-segment every component and subcomponent is materialised, so
   the round trip holds for every line whose field texts are empty or not blank, do not end the
   line with an empty field, and whose leaves are fixed by the leaf encoder - trailing empty
   components or subcomponents included *)
Theorem C01_segment_Z_text : forall v t, tables_of v = Some t ->
  forall e, ec_ok e ->
  forall a b, bupper a = a -> bupper b = b ->
  forall fs : list str, no_trail fs ->
  Forall (zfield_ok e (leaf_enc v TOLERANT e)) fs ->
  let text := bjoin (fsep e) (zname a b :: fs) in
  exists s, parse_segment t TOLERANT e (leaf_enc v TOLERANT e) text None = Ok s /\
            enc_segment t e s false = Ok text.
Proof.
  intros v t Ht e He a b Ha Hb fs Hn Hf text.
  destruct (shipped_table_facts v t Ht) as [Hst [Hvar [Hz _]]].
  assert (Hup : upper (zname a b) = zname a b) by (unfold zname, upper; cbn [map]; now rewrite Ha, Hb).
  assert (Hnf : forall i, slookup (name_idx (zname a b) i) (t_fields t) = None)
    by (intros i; now apply no_z_fields_lookup).
  exists (zseg e a b fs). split.
  - apply parse_segment_z; auto.
  - apply (enc_segment_z t e (leaf_enc v TOLERANT e)); auto.
Qed.
Print Assumptions C01_segment_Z_text.

(* the leaf hypothesis is not a black box: text without the escape character and without the
   delimiters that ST escapes is a fixed point (Proofs/EscapeFacts.v: escape_tokenised_id) *)
Theorem C01_leaf_plain : forall v t e s, tables_of v = Some t ->
  ec_valid (st_family v) e = true -> bmem (esc e) s = false ->
  (forall d, In d (escaped_delims (st_family v) e) -> bmem d s = false) ->
  st_fixed v e s.
Proof. intros v t e s. exact (leaf_enc_ST_plain v t e s). Qed.
Print Assumptions C01_leaf_plain.

Theorem C01_valid_ec : forall p e, ec_valid p e = true -> ec_ok e.
Proof. exact ec_valid_ok. Qed.
Print Assumptions C01_valid_ec.

(* ---- the hypotheses are satisfiable on non-trivial data ---- *)

Definition st_fixedb (v : str) (e : ec) (s : str) : bool :=
  match leaf_enc v TOLERANT e (Some (unbs "ST")) s with Ok r => streqb r s | Err _ => false end.
Lemma st_fixedb_sound v e s : st_fixedb v e s = true -> st_fixed v e s.
Proof.
  unfold st_fixedb, st_fixed. destruct (leaf_enc _ _ _ _ s) as [r|]; [|discriminate].
  intros H. now rewrite (streqb_eq _ _ H).
Qed.

Example C01_ec_ok_default : ec_ok default_ec /\ ec_ok default_ec_27.
Proof. split; apply (ec_valid_ok esc_family_0); vm_compute; reflexivity. Qed.

Definition example_vt : list vfield :=
  [ [ [ ["a" : str]; ["b" : str; "c\T\d" : str]; []; ["d" : str] ]; []; [ ["x" : str] ] ];
    [];
    [ [ []; []; [[]; "y z" : str] ] ] ].

Example C01_Z_canonical_example : canon_fields default_ec (st_fixed "2.5" default_ec) example_vt.
Proof.
  apply (canon_fieldsb_sound default_ec _ (st_fixedb "2.5" default_ec) (st_fixedb_sound _ _)).
  vm_compute. reflexivity.
Qed.

Example C01_Z_example_text :
  render_seg default_ec (zname "0" "B") example_vt = ("Z0B|a^b&c\T\d^^d~~x||^^&y z" : bs) /\
  (match parse_segment Gen.Tables_v2_5.tables TOLERANT default_ec (leaf_enc "2.5" TOLERANT default_ec)
           (render_seg default_ec (zname "0" "B") example_vt) None with
   | Ok s => enc_segment Gen.Tables_v2_5.tables default_ec s false
   | Err x => Err x end) = Ok (unbs "Z0B|a^b&c\T\d^^d~~x||^^&y z").
Proof. split; vm_compute; reflexivity. Qed.
