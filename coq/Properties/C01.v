(* C01 - ER7 parse -> encode is the identity on canonical text (TOLERANT level).
   Theorems only; proofs live in Proofs/SplitJoin.v, LevelCodec.v, RoundTripStr.v, RoundTripCore.v,
   RoundTripVT.v, RoundTripZ.v, RoundTripSeg.v, RoundTripTables.v.  All statements are about the model's own
   parse_segment / parse_field / parse_component and enc_segment / enc_field / enc_comp, for every
   valid delimiter set, every supported version's regenerated tables and unbounded inputs. *)
From Coq Require Import List Bool ZArith NArith Init.Byte.
From HL7 Require Import Lib.Str Model.Ec Model.Escape Model.Result Model.Ref Model.Tree Model.Parser Model.Encode
  Model.Leaf Model.Wf Model.Dump.
From HL7 Require Import Gen.Params Gen.Tables.
From HL7 Require Import Proofs.EscapeFacts Proofs.SplitJoin Proofs.LevelCodec Proofs.RoundTripStr Proofs.RoundTripCore
  Proofs.RoundTripVT Proofs.RoundTripZ Proofs.RoundTripTables Proofs.RoundTripSeg Proofs.RoundTripMsh
  Proofs.RoundTripSegTables Proofs.RoundTripMsg Proofs.RoundTripMsgTables.
From HL7 Require Import Model.Header Model.MsgTree Model.Message.
Import ListNotations.
Open Scope bs_scope.

(* ---- the generic facts (C01_level of the design) ---- *)

Theorem C01_split_join : forall c l, l <> [] -> forallb (nosep beqb c) l = true -> bsplit c (bjoin c l) = l.
Proof. exact bsplit_bjoin. Qed.
Print Assumptions C01_split_join.

Theorem C01_join_split : forall c s, bjoin c (bsplit c s) = s.
Proof. exact bjoin_bsplit. Qed.
Print Assumptions C01_join_split.

(* numbering the pieces, keeping the non-empty ones as children named by the table (groups_ok),
   looking them up by name in table order, trimming the trailing empty slots and joining gives the
   pieces back (abstract child type A: subcomponents, components) *)
Theorem C01_level : forall (A : Type) (nm : A -> option str) (enc : A -> str) sep st ps gs,
  NoDup (ordered_of st) -> ~ In (unbs "ST") (ordered_of st) ->
  groups_ok nm (ordered_of st) gs -> Forall2 (piece_group enc) ps gs -> no_trail ps ->
  enc_slots enc sep (generic_slots nm st (concat gs)) = bjoin sep ps.
Proof. intros A nm enc. exact (level_codec nm enc). Qed.
Print Assumptions C01_level.

(* ---- Z-segments: every name Z??, every number of fields, repetitions, components, subcomponents ---- *)

(* the leaf condition st_fixed v e s (Proofs/RoundTripTables.v): the ST leaf encoder (escape) returns
   the text unchanged, leaf_enc v TOLERANT e (Some "ST") s = Ok s *)

Theorem C01_segment_Z : forall v t, tables_of v = Some t ->
  forall e, ec_ok e ->
  forall a b, bupper a = a -> bupper b = b ->
  forall vt : list vfield, canon_fields e (st_fixed v e) vt ->
  let text := render_seg e (zname a b) vt in
  exists s, parse_segment t TOLERANT e (leaf_enc v TOLERANT e) text None = Ok s /\
            enc_segment t e s false = Ok text.
Proof.
  intros v t Ht e He a b Ha Hb vt Hc text.
  destruct (shipped_table_facts v t Ht) as [Hst [Hvar [Hz _]]].
  assert (Hup : upper (zname a b) = zname a b) by (unfold zname, upper; cbn [map]; now rewrite Ha, Hb).
  assert (Hnf : forall i, slookup (name_idx (zname a b) i) (t_fields t) = None)
    by (intros i; now apply no_z_fields_lookup).
  exists (zseg e a b (map (render_field e) vt)).
  apply (z_roundtrip_vt t e (leaf_enc v TOLERANT e) Hst Hvar a b Hup Hnf He vt).
  revert Hc. apply canon_fields_impl. intros s Hs. now right.
Qed.
Print Assumptions C01_segment_Z.

(* the same on field TEXTS: inside a Z-segment every component and subcomponent is materialised, so
   the round trip holds for every line whose field texts are empty or not blank, do not end the
   line with an empty field, and whose leaves are fixed by the leaf encoder - trailing empty
   components or subcomponents included *)
Theorem C01_segment_Z_text : forall v t, tables_of v = Some t ->
  forall e, ec_ok e ->
  forall a b, bupper a = a -> bupper b = b ->
  forall fs : list str, no_trail fs ->
  Forall (zfield_ok e (leaf_enc v TOLERANT e)) fs ->
  let text := bjoin (fsep e) (zname a b :: fs) in
  exists s, parse_segment t TOLERANT e (leaf_enc v TOLERANT e) text None = Ok s /\
            enc_segment t e s false = Ok text.
Proof.
  intros v t Ht e He a b Ha Hb fs Hn Hf text.
  destruct (shipped_table_facts v t Ht) as [Hst [Hvar [Hz _]]].
  assert (Hup : upper (zname a b) = zname a b) by (unfold zname, upper; cbn [map]; now rewrite Ha, Hb).
  assert (Hnf : forall i, slookup (name_idx (zname a b) i) (t_fields t) = None)
    by (intros i; now apply no_z_fields_lookup).
  exists (zseg e a b fs). split.
  - apply parse_segment_z; auto.
  - apply (enc_segment_z t e (leaf_enc v TOLERANT e)); auto.
Qed.
Print Assumptions C01_segment_Z_text.

(* the leaf hypothesis is not a black box: text without the escape character and without the
   delimiters that ST escapes is a fixed point (Proofs/EscapeFacts.v: escape_tokenised_id) *)
Theorem C01_leaf_plain : forall v t e s, tables_of v = Some t ->
  ec_valid (st_family v) e = true -> bmem (esc e) s = false ->
  (forall d, In d (escaped_delims (st_family v) e) -> bmem d s = false) ->
  st_fixed v e s.
Proof. intros v t e s. exact (leaf_enc_ST_plain v t e s). Qed.
Print Assumptions C01_leaf_plain.

Theorem C01_valid_ec : forall p e, ec_valid p e = true -> ec_ok e.
Proof. exact ec_valid_ok. Qed.
Print Assumptions C01_valid_ec.

(* ---- the hypotheses are satisfiable on non-trivial data ---- *)

Example C01_ec_ok_default : ec_ok default_ec /\ ec_ok default_ec_27.
Proof. split; apply (ec_valid_ok esc_family_0); vm_compute; reflexivity. Qed.

Definition example_vt : list vfield :=
  [ [ [ ["a" : str]; ["b" : str; "c\T\d" : str]; []; ["d" : str] ]; []; [ ["x" : str] ] ];
    [];
    [ [ []; []; [[]; "y z" : str] ] ] ].

Example C01_Z_canonical_example : canon_fields default_ec (st_fixed "2.5" default_ec) example_vt.
Proof.
  apply (canon_fieldsb_sound default_ec _ (st_fixedb "2.5" default_ec) (st_fixedb_sound _ _)).
  vm_compute. reflexivity.
Qed.

Example C01_Z_example_text :
  render_seg default_ec (zname "0" "B") example_vt = ("Z0B|a^b&c\T\d^^d~~x||^^&y z" : bs) /\
  (match parse_segment Gen.Tables_v2_5.tables TOLERANT default_ec (leaf_enc "2.5" TOLERANT default_ec)
           (render_seg default_ec (zname "0" "B") example_vt) None with
   | Ok s => enc_segment Gen.Tables_v2_5.tables default_ec s false
   | Err x => Err x end) = Ok (unbs "Z0B|a^b&c\T\d^^d~~x||^^&y z").
Proof. split; vm_compute; reflexivity. Qed.

(* ---- table-defined segments of every supported version (ANYHL7SEGMENT is not a segment; MSH is
   excluded here) ----
   The canonical lines are described on the text: the field texts fs (at most as many as the
   segment defines, the last one not empty) contain no field separator or CR, and each one is
   empty or - not blank and - every repetition of it satisfies the condition that the table row of
   that position imposes (rep_text_ok):
     base-typed field b      : every leaf is fixed by the leaf encoder of b;
     varies / untyped field  : every leaf is fixed by the ST encoder (untyped = the reserved
                               positions of v2.5.1 whose row has no datatype);
     field of struct type D  : at most as many components as D defines, the last one not empty,
                               every non-empty component not blank and, by its own row in D,
                               either base-typed (leaves fixed) or of a flat struct type D2: at
                               most as many subcomponents as D2 defines, the last one not empty,
                               each empty or not blank and fixed by the encoder of its datatype. *)
Theorem C01_segment_text : forall v t, tables_of v = Some t ->
  forall e, ec_ok e ->
  forall sn r, In (sn, r) (t_segments t) -> sn <> unbs "ANYHL7SEGMENT" -> sn <> unbs "MSH" ->
  exists srows, r = SSeqIn false srows None /\
  forall fs : list str, no_trail fs -> length fs <= length srows ->
    (forall i f, In (i, f) (indexed fs) -> tfield_text t e (leaf_enc v TOLERANT e) srows i f) ->
    let text := bjoin (fsep e) (sn :: fs) in
    exists s, parse_segment t TOLERANT e (leaf_enc v TOLERANT e) text None = Ok s /\
              enc_segment t e s false = Ok text.
Proof.
  intros v t Ht e He sn r Hin Ha Hm.
  destruct (shipped_table_facts v t Ht) as [Hst [Hvar _]].
  destruct (shipped_segment_ok v t sn r Ht Hin Ha Hm) as [Hl [srows [-> [H3 [Hup [Hmsh [Hz [Hc [Hrows [Hnof _]]]]]]]]]].
  exists srows. split; [reflexivity|]. intros fs Hn Hlen Hf text.
  destruct (seg_table_roundtrip t e (leaf_enc v TOLERANT e) He Hst Hvar sn srows fs H3 Hup Hmsh Hz Hl Hc Hrows Hn Hlen Hf)
    as [s [gs [Hp [_ [_ Henc]]]]].
  exists s. split; assumption.
Qed.
Print Assumptions C01_segment_text.

(* the hypotheses hold for a real, non-trivial PID line of v2.5 (empty middle fields, a repeated
   CX field with a subcomponent-structured HD component and an empty middle subcomponent, an empty
   leading component, an XPN with a four-part FN): decided by the boolean form of the conditions *)
Definition pid_rows : list srow :=
  match slookup "PID" (t_segments Gen.Tables_v2_5.tables) with Some (SSeqIn _ rows _) => rows | _ => [] end.
Definition pid_fields : list str := bsplit "|" "1||a^^^x&&z~^b&c||n1&n2&n3&n4^g".

Example C01_segment_text_example :
  let t := Gen.Tables_v2_5.tables in
  let lf := leaf_enc "2.5" TOLERANT default_ec in
  In (unbs "PID", SSeqIn false pid_rows None) (t_segments t) /\
  no_trail pid_fields /\ length pid_fields <= length pid_rows /\
  (forall i f, In (i, f) (indexed pid_fields) -> tfield_text t default_ec lf pid_rows i f) /\
  bjoin (fsep default_ec) (unbs "PID" :: pid_fields) = unbs "PID|1||a^^^x&&z~^b&c||n1&n2&n3&n4^g".
Proof.
  cbv zeta. split.
  - apply (slookup_in "PID"). vm_compute. reflexivity.
  - assert (L : line_okb Gen.Tables_v2_5.tables default_ec (leaf_enc "2.5" TOLERANT default_ec) pid_rows pid_fields = true)
      by (vm_compute; reflexivity).
    apply line_okb_sound in L. destruct L as [A [B C]]. split; [exact A|]. split; [exact B|]. split; [exact C|].
    vm_compute. reflexivity.
Qed.

(* ---- the same on canonical VALUE TREES within the table's counts ----
   vt : fields -> repetitions -> components -> subcomponent texts.
   canon_fields e (fun _ => True) vt : no trailing empty entry at any level, every leaf free of
     delimiters and CR and either empty or not blank.
   wt_field t e leaf srows i vf : the field value vf respects what row i of the segment defines -
     counts of components / subcomponents, and every leaf is a fixed point of the leaf encoder of
     the datatype of its own position (leaf_at). *)
Theorem C01_segment : forall v t, tables_of v = Some t ->
  forall e, ec_ok e ->
  forall sn r, In (sn, r) (t_segments t) -> sn <> unbs "ANYHL7SEGMENT" -> sn <> unbs "MSH" ->
  exists srows, r = SSeqIn false srows None /\
  forall vt : list vfield,
    canon_fields e (fun _ => True) vt -> length vt <= length srows ->
    (forall i vf, In (i, vf) (indexed vt) -> wt_field t (leaf_enc v TOLERANT e) srows i vf) ->
    let text := render_seg e sn vt in
    exists s, parse_segment t TOLERANT e (leaf_enc v TOLERANT e) text None = Ok s /\
              enc_segment t e s false = Ok text.
Proof.
  intros v t Ht e He sn r Hin Ha Hm.
  destruct (shipped_table_facts v t Ht) as [Hst [Hvar _]].
  destruct (shipped_segment_ok v t sn r Ht Hin Ha Hm) as [Hl [srows [-> [H3 [Hup [Hmsh [Hz [Hc [Hrows [Hnof _]]]]]]]]]].
  exists srows. split; [reflexivity|]. intros vt Hcan Hlen Hw text.
  exact (seg_table_roundtrip_vt t e (leaf_enc v TOLERANT e) He Hst Hvar sn srows vt H3 Hup Hmsh Hz Hl Hc Hrows Hcan Hlen Hw).
Qed.
Print Assumptions C01_segment.

(* parse_field followed by to_er7, for the field at position i of a table segment: with the
   table's reference given (as parse_segment does) or looked up by name (parse_field(text, name)) *)
Theorem C01_field : forall v t, tables_of v = Some t ->
  forall e, ec_ok e ->
  forall sn r, In (sn, r) (t_segments t) -> sn <> unbs "ANYHL7SEGMENT" -> sn <> unbs "MSH" ->
  exists srows, r = SSeqIn false srows None /\
  forall i row fr fv text,
    1 <= i -> nth_error srows (pred i) = Some row -> row_ref t row = Some fr ->
    rep_text_ok t e (leaf_enc v TOLERANT e) fr text ->
    exists x, parse_field t TOLERANT e (leaf_enc v TOLERANT e) text (Some (name_idx sn i)) (Some fr) fv = Ok x /\
              enc_field t e x = Ok text /\
              (slookup (name_idx sn i) (t_fields t) = Some fr ->
               parse_field t TOLERANT e (leaf_enc v TOLERANT e) text (Some (name_idx sn i)) None fv = Ok x).
Proof.
  intros v t Ht e He sn r Hin Ha Hm.
  destruct (shipped_table_facts v t Ht) as [Hst [Hvar _]].
  destruct (shipped_segment_ok v t sn r Ht Hin Ha Hm) as [Hl [srows [-> [H3 [Hup [Hmsh [Hz [Hc [Hrows [Hnof _]]]]]]]]]].
  exists srows. split; [reflexivity|]. intros i row fr fv text Hi Hn Hr Hok.
  destruct (field_roundtrip t e (leaf_enc v TOLERANT e) Hst Hvar sn srows i row fr fv text H3 Hup Hmsh Hc Hrows Hi Hn Hr Hok)
    as [x [Hp [_ Henc]]].
  exists x. split; [exact Hp|]. split; [exact Henc|]. intros Hlk.
  rewrite (parse_field_by_name t e (leaf_enc v TOLERANT e) text (name_idx sn i) fr fv); [exact Hp|].
  now rewrite name_idx_upper, Hup.
Qed.
Print Assumptions C01_field.

(* parse_component followed by to_er7, for component j of a struct datatype D that a field of a
   table segment uses *)
Theorem C01_component : forall v t, tables_of v = Some t ->
  forall e, ec_ok e ->
  forall sn r, In (sn, r) (t_segments t) -> sn <> unbs "ANYHL7SEGMENT" -> sn <> unbs "MSH" ->
  exists srows, r = SSeqIn false srows None /\
  forall row inf D rows j crow text,
    In row srows -> row_ref t row = Some (SSeqDt inf) -> i_dt inf = Some D ->
    slookup D (t_structs t) = Some rows ->
    1 <= j -> nth_error rows (pred j) = Some crow ->
    comp_text_ok t e (leaf_enc v TOLERANT e) crow text ->
    exists cref c, row_ref t crow = Some cref /\
      parse_component t TOLERANT e (leaf_enc v TOLERANT e) text (Some (name_idx D j)) None (Some cref) = Ok c /\
      enc_comp t e c = text.
Proof.
  intros v t Ht e He sn r Hin Ha Hm.
  destruct (shipped_table_facts v t Ht) as [Hst [Hvar _]].
  destruct (shipped_segment_ok v t sn r Ht Hin Ha Hm) as [Hl [srows [-> [H3 [Hup [Hmsh [Hz [Hc [Hrows [Hnof _]]]]]]]]]].
  exists srows. split; [reflexivity|]. intros row inf D rows j crow text Hrow Hr Hdt HlD Hj Hn Hok.
  destruct (Hrows row Hrow) as [fr [Hr' HK]]. rewrite Hr in Hr'. injection Hr' as <-.
  destruct HK as [D' [rows' [Hdt' [HlD' Hg]]]]. rewrite Hdt in Hdt'. injection Hdt' as <-.
  rewrite HlD in HlD'. injection HlD' as <-.
  destruct (component_roundtrip t e (leaf_enc v TOLERANT e) Hvar D rows j crow text Hg Hj Hn Hok)
    as [cref [c [E [Hp [_ Henc]]]]].
  exists cref, c. auto.
Qed.
Print Assumptions C01_component.

(* a real, non-trivial value tree for PID of v2.5: PID|1||a^^^x&&z~^b&c||n1&n2&n3&n4^g *)
Definition pid_vt : list vfield :=
  [ [ [ ["1" : str] ] ]; [];
    [ [ ["a" : str]; []; []; ["x" : str; []; "z" : str] ]; [ []; ["b" : str; "c" : str] ] ];
    [];
    [ [ ["n1" : str; "n2" : str; "n3" : str; "n4" : str]; ["g" : str] ] ] ].

Example C01_segment_example :
  let t := Gen.Tables_v2_5.tables in
  let lf := leaf_enc "2.5" TOLERANT default_ec in
  canon_fields default_ec (fun _ => True) pid_vt /\ length pid_vt <= length pid_rows /\
  (forall i vf, In (i, vf) (indexed pid_vt) -> wt_field t lf pid_rows i vf) /\
  render_seg default_ec "PID" pid_vt = unbs "PID|1||a^^^x&&z~^b&c||n1&n2&n3&n4^g".
Proof.
  cbv zeta.
  assert (L : vt_okb Gen.Tables_v2_5.tables default_ec (leaf_enc "2.5" TOLERANT default_ec) pid_rows pid_vt = true)
    by (vm_compute; reflexivity).
  apply vt_okb_sound in L. destruct L as [A [B C]]. split; [exact A|]. split; [exact B|]. split; [exact C|].
  vm_compute. reflexivity.
Qed.

(* ---- the MSH segment line: MSH + field separator + MSH-2 + the fields MSH-3 ... ----
   MSH-1 is the field separator itself (parse_fields inserts it, Segment.to_er7 pops it), MSH-2
   is kept verbatim and not split on the repetition character.  m2 is any MSH-2 text that is not
   blank and contains neither the field separator nor CR; the fields fs from MSH-3 on satisfy the
   same typed condition tfield_text as in C01_segment_text (positions 3, 4, ...). *)
Theorem C01_segment_MSH : forall v t, tables_of v = Some t ->
  forall e, ec_ok e ->
  exists srows, slookup MSH (t_segments t) = Some (SSeqIn false srows None) /\
  forall (m2 : str) (fs : list str),
    is_blank m2 = false -> bmem (fsep e) m2 = false -> bmem CR m2 = false ->
    no_trail (m2 :: fs) -> 2 + length fs <= length srows ->
    (forall i f, In (i, f) (combine (seq 3 (length fs)) fs) -> tfield_text t e (leaf_enc v TOLERANT e) srows i f) ->
    let text := bjoin (fsep e) (MSH :: m2 :: fs) in
    exists s, parse_segment t TOLERANT e (leaf_enc v TOLERANT e) text None = Ok s /\
              enc_segment t e s false = Ok text.
Proof.
  intros v t Ht e He.
  destruct (shipped_table_facts v t Ht) as [Hst [Hvar [_ [f [mx Hrow]]]]].
  destruct (shipped_msh_ok v t Ht) as [srows [row1 [row2 [inf1 [inf2 [Hl [Hc [Hrows [Hn1 [Hn2 [Hr1 [Hr2 [Hd1 Hd2]]]]]]]]]]]]].
  exists srows. split; [exact Hl|]. intros m2 fs Hb Hf Hcr Hnt Hlen Hfs.
  destruct (msh_roundtrip t e (leaf_enc v TOLERANT e) He Hst Hvar srows Hl Hc Hrows row1 row2 inf1 inf2
           Hn1 Hn2 Hr1 Hr2 Hd1 Hd2 m2 _ _ fs Hb Hf Hcr (leaf_enc_ST v e _ f mx Hrow) (leaf_enc_ST v e _ f mx Hrow)
           Hnt Hlen Hfs) as [s [Hp [Henc _]]].
  exists s. split; assumption.
Qed.
Print Assumptions C01_segment_MSH.

(* MSH-2 as written by hl7apy - the component, repetition, escape, subcomponent (and truncation)
   characters of a valid delimiter set - satisfies the three conditions on m2 *)
Theorem C01_MSH2_delimiters : forall p e, ec_valid p e = true ->
  is_blank (msh2_of e) = false /\ bmem (fsep e) (msh2_of e) = false /\ bmem CR (msh2_of e) = false.
Proof.
  intros p e H. unfold ec_valid in H. apply andb_prop in H. destruct H as [Hn Hf].
  apply msh2_props; [now apply nodupb_NoDup|].
  intros c Hc. pose proof (forallb_In _ _ _ Hf Hc) as G. cbn in G.
  apply andb_prop in G. destruct G as [_ G]. now apply negb_true_iff in G.
Qed.
Print Assumptions C01_MSH2_delimiters.

Definition msh_rows25 : list srow :=
  match slookup MSH (t_segments Gen.Tables_v2_5.tables) with Some (SSeqIn _ rows _) => rows | _ => [] end.
Definition msh_fields : list str := bsplit "|" "a^b|c||d~e|20200101120000||ADT^A01^ADT_A01|1|P|2.5".

Example C01_segment_MSH_example :
  let t := Gen.Tables_v2_5.tables in
  let lf := leaf_enc "2.5" TOLERANT default_ec in
  slookup MSH (t_segments t) = Some (SSeqIn false msh_rows25 None) /\
  msh2_of default_ec = unbs "^~\&" /\
  no_trail (msh2_of default_ec :: msh_fields) /\ 2 + length msh_fields <= length msh_rows25 /\
  (forall i f, In (i, f) (combine (seq 3 (length msh_fields)) msh_fields) -> tfield_text t default_ec lf msh_rows25 i f) /\
  bjoin (fsep default_ec) (MSH :: msh2_of default_ec :: msh_fields) =
    unbs "MSH|^~\&|a^b|c||d~e|20200101120000||ADT^A01^ADT_A01|1|P|2.5".
Proof.
  cbv zeta. split; [vm_compute; reflexivity|]. split; [reflexivity|].
  split; [apply no_trailb_sound; vm_compute; reflexivity|].
  split; [apply Nat.leb_le; vm_compute; reflexivity|]. split; [|vm_compute; reflexivity].
  assert (L : forallb (fun p => tfield_textb Gen.Tables_v2_5.tables default_ec (leaf_enc "2.5" TOLERANT default_ec)
                                  msh_rows25 (fst p) (snd p)) (combine (seq 3 (length msh_fields)) msh_fields) = true)
    by (vm_compute; reflexivity).
  intros i f Hif. rewrite forallb_forall in L. apply tfield_textb_sound. exact (L _ Hif).
Qed.

(* ---- whole messages, find_groups = false ----
   The message is the MSH line `MSH` + fsep + MSH-2 (= the delimiters of e) + the header fields hf,
   followed by canonical segment lines (canonical_line: a table segment line as in C01_segment_text
   or a Z-segment line as in C01_segment_Z_text, not empty, without CR and without surrounding
   white space), joined by CR.  The version read from MSH-12 (or the default) names the tables t;
   a truncation character requires MSH-12 >= 2.7 for the parser and version >= 2.7 for to_er7.
   Hypothesis on the Message constructor: it accepts the message name found in MSH-9 (or falls
   back to an unnamed message) - the name plays no role in the round trip. *)
Theorem C01_message_flat : forall dflt e (hf lines : list str) t m0,
  ec_valid esc_family_0 e = true ->
  Forall (fun f => bmem (fsep e) f = false /\ bmem CR f = false) hf ->
  (forall tr, tsep e = Some tr -> (exists vf, nth_error hf 9 = Some vf /\ ge_27 vf = true) /\ ge_27 (t_version t) = true) ->
  let v := msg_version dflt e hf in
  tables_of v = Some t ->
  (match new_message TOLERANT t e (hdr_structure e hf) with
   | Err (HL7 EInvalidName) => new_message TOLERANT t e None
   | r => r end) = Ok m0 ->
  (* the MSH line *)
  strip (msh_line e hf) = msh_line e hf -> no_trail (msh2_of e :: hf) ->
  (forall srows, slookup MSH (t_segments t) = Some (SSeqIn false srows None) ->
     2 + length hf <= length srows /\
     forall i f, In (i, f) (combine (seq 3 (length hf)) hf) -> tfield_text t e (leaf_enc v TOLERANT e) srows i f) ->
  (* the other lines *)
  Forall (canonical_line t e (leaf_enc v TOLERANT e)) lines ->
  let text := bjoin CR (msh_line e hf :: lines) in
  exists m, parse_message tables_of dflt TOLERANT false text = Ok (t, m) /\ enc_message t TOLERANT m = Ok text.
Proof.
  intros dflt e hf lines t m0 Hev Hhf Htr v Ht Hnew Hstrip Hnt Hmsh Hlines text.
  destruct (ec_valid_header _ e Hev) as [He Hfm].
  destruct (msh_line_rt v t e hf Ht He) as [srows [Hl Hrt0]].
  destruct (Hmsh srows Hl) as [Hlen Hfs].
  destruct (Hrt0 Hnt Hlen Hfs) as [s0 [Hp0 [Henc0 [Hk0 [Hn0 [Hv1 Hv2]]]]]].
  assert (Hsegs : exists segs, Forall2 (fun l s => parse_segment t TOLERANT e (leaf_enc v TOLERANT e) l None = Ok s /\
                                                  enc_segment t e s false = Ok l /\ known_name t (s_name s)) lines segs).
  { clear -Ht He Hlines. induction Hlines as [|l ls Hl _ [segs IH]]; [exists []; constructor|].
    destruct (canonical_line_rt v t e l Ht (ec_header_ok_ec_ok e He) Hl) as [s Hs]. exists (s :: segs). now constructor. }
  destruct Hsegs as [segs Hsegs].
  apply (message_flat_roundtrip tables_of dflt t e He Hfm hf Hhf (fun tr H => proj1 (Htr tr H)) Ht
           (fun tr H => proj2 (Htr tr H)) lines s0 segs m0 Hnew); auto.
  eapply Forall_impl; [|exact Hlines]. intros l [A [B [C _]]]. auto.
Qed.
Print Assumptions C01_message_flat.

(* a concrete message through the model's parse_message / enc_message *)
Definition example_msg : str :=
  unbs "MSH|^~\&|SND|FAC|RCV|RFAC|20200101120000||ADT^A01^ADT_A01|42|P|2.5" ++ [CR] ++
  unbs "EVN||20200101" ++ [CR] ++ unbs "PID|1||a^^^x&&z~^b&c||n1&n2&n3&n4^g" ++ [CR] ++ unbs "ZAB|u^v&w~~x||y".
Example C01_message_flat_example :
  (match parse_message tables_of "2.5" TOLERANT false example_msg with
   | Ok (t, m) => enc_message t TOLERANT m
   | Err x => Err x end) = Ok example_msg.
Proof. vm_compute. reflexivity. Qed.

(* ---- whole messages, find_groups = true ----
   Same message, same hypotheses, plus the table premises of the group search (C08): the tables
   write every segment row of a message / group structure by name (msg_tables_ok: all shipped
   versions but 2.1), and for the message structure found for MSH-9: its group rows are written by
   name (tab_ok), group names are distinct along every path (names_distinct) - both decided per
   version in Oblig/C08_v2_X.v - and MSH is a direct child of it.  Whenever parse_message with
   find_groups accepts the message, to_er7 returns the text: every segment of the grouped tree is
   the flat parse of its own line (the segment remembers its reference, which is the table's), and
   grouped and flat children encode identically (C08_same_encoding). *)
Theorem C01_message_groups : forall dflt e (hf lines : list str) t m0,
  ec_valid esc_family_0 e = true ->
  Forall (fun f => bmem (fsep e) f = false /\ bmem CR f = false) hf ->
  (forall tr, tsep e = Some tr -> (exists vf, nth_error hf 9 = Some vf /\ ge_27 vf = true) /\ ge_27 (t_version t) = true) ->
  let v := msg_version dflt e hf in
  tables_of v = Some t -> msg_tables_ok t = true ->
  (match new_message TOLERANT t e (hdr_structure e hf) with
   | Err (HL7 EInvalidName) => new_message TOLERANT t e None
   | r => r end) = Ok m0 ->
  (forall st, m_st m0 = Some st ->
     GroupsFacts.tab_ok t 12 (st_reference st) = true /\ GroupsMirror.names_distinct t 12 [] (st_reference st) = true /\
     match Groups.search t Groups.search_fuel MSH (st_reference st) with
     | Ok None => True | Ok (Some (_, [])) => True | _ => False end) ->
  strip (msh_line e hf) = msh_line e hf -> no_trail (msh2_of e :: hf) ->
  (forall srows, slookup MSH (t_segments t) = Some (SSeqIn false srows None) ->
     2 + length hf <= length srows /\
     forall i f, In (i, f) (combine (seq 3 (length hf)) hf) -> tfield_text t e (leaf_enc v TOLERANT e) srows i f) ->
  Forall (canonical_line t e (leaf_enc v TOLERANT e)) lines ->
  let text := bjoin CR (msh_line e hf :: lines) in
  forall m, parse_message tables_of dflt TOLERANT true text = Ok (t, m) -> enc_message t TOLERANT m = Ok text.
Proof.
  intros dflt e hf lines t m0 Hev Hhf Htr v Ht Hmt Hnew Hst Hstrip Hnt Hmsh Hlines text.
  destruct (ec_valid_header _ e Hev) as [He Hfm].
  destruct (msh_line_rt v t e hf Ht He) as [srows [Hl Hrt0]].
  destruct (Hmsh srows Hl) as [Hlen Hfs].
  destruct (Hrt0 Hnt Hlen Hfs) as [s0 [Hp0 [Henc0 [Hk0 [Hn0 [Hv1 Hv2]]]]]].
  assert (Hsegs : exists segs, Forall2 (fun l s => parse_segment t TOLERANT e (leaf_enc v TOLERANT e) l None = Ok s /\
                                                  enc_segment t e s false = Ok l /\ known_name t (s_name s)) lines segs).
  { clear -Ht He Hlines. induction Hlines as [|l ls Hl _ [segs IH]]; [exists []; constructor|].
    destruct (canonical_line_rt v t e l Ht (ec_header_ok_ec_ok e He) Hl) as [s Hs]. exists (s :: segs). now constructor. }
  destruct Hsegs as [segs Hsegs].
  apply (message_groups_roundtrip tables_of dflt t e He Hfm hf Hhf (fun tr H => proj1 (Htr tr H)) Ht
           (fun tr H => proj2 (Htr tr H)) lines s0 segs m0 Hnew); auto.
  - eapply Forall_impl; [|exact Hlines]. intros l [A [B [C _]]]. auto.
  - intros st Hm. destruct (Hst st Hm) as [H1 [H2 H3]]. cbv zeta.
    split; [now apply (GroupsFacts.tab_ok_sound t 12)|].
    split; [intros ex Hc; now apply (GroupsMirror.names_distinct_sound t 12 [] _ H2 ex)|].
    split; [|exact H3].
    intros pr n sr. apply (rows_named_sound t Hmt).
    destruct (new_message TOLERANT t e (hdr_structure e hf)) as [m1|ex] eqn:E1.
    + injection Hnew as <-. exact (new_message_root t TOLERANT e _ _ st E1 Hm).
    + destruct ex as [c| | |]; try discriminate. destruct c; try discriminate. exact (new_message_root t TOLERANT e _ _ st Hnew Hm).
  - intros n sr. apply (seg_keys_sound t Hmt).
Qed.
Print Assumptions C01_message_groups.

(* the premises hold for ADT_A01 of v2.5, and the model round-trips a grouped message *)
Example C01_message_groups_example :
  let t := Gen.Tables_v2_5.tables in
  msg_tables_ok t = true /\
  (match slookup "ADT_A01" (t_messages t) with
   | Some root => GroupsFacts.tab_ok t 12 root && GroupsMirror.names_distinct t 12 [] root &&
                  match Groups.search t Groups.search_fuel MSH root with Ok (Some (_, [])) => true | _ => false end
   | None => false end) = true /\
  (match parse_message tables_of "2.5" TOLERANT true example_msg with
   | Ok (t, m) => enc_message t TOLERANT m
   | Err x => Err x end) = Ok example_msg.
Proof. repeat split; vm_compute; reflexivity. Qed.
