(* C03 - Parsing never silently drops or reorders content.  Parser side, proved for every text,
   every table, every delimiter set and both validation levels (Proofs/NoDrop.v):
   an accepted segment line yields exactly one Field per non-blank field repetition of the text,
   in text order, and the non-blank leaf texts held by the tree are exactly the non-blank leaf texts
   of the line, in the same order; child acceptance appends the children it is given unchanged.
   NOT proved here (decided by the correspondence run and the oracle of harness/c03.py): that the
   ENCODER emits every held leaf (Model/Encode.v places children by name), and the message level
   (segment sequence, group finding), which needs Model/Message.v. *)
From Coq Require Import List Bool NArith Init.Byte.
From HL7 Require Import Lib.Str Model.Ec Model.Result Model.Ref Model.Tree Model.Parser Model.Leaf
     Proofs.NoDrop Gen.Params.
From HL7 Require Gen.Tables_v2_5.
Import ListNotations.
Open Scope bs_scope.

Theorem C03_segment_keeps_leaves : forall t lvl e leaf text reference s,
  parse_segment t lvl e leaf text reference = Ok s ->
  seg_leaves s = line_text_leaves e text.
Proof. exact parse_segment_keeps_leaves. Qed.
Print Assumptions C03_segment_keeps_leaves.

Theorem C03_segment_keeps_all_fields : forall t lvl e leaf text reference s,
  parse_segment t lvl e leaf text reference = Ok s ->
  length (s_children s) =
  fold_right (fun p n => expected_fields e (seg_name_of text) p + n) 0
             (indexed (bsplit (fsep e) (strip_cr (seg_rest_of text)))).
Proof. exact parse_segment_keeps_all_fields. Qed.
Print Assumptions C03_segment_keeps_all_fields.

Theorem C03_field_keeps_leaves : forall t lvl e leaf text name reference fv f,
  parse_field t lvl e leaf text name reference fv = Ok f ->
  field_leaves f = if is_msh12 name then keep_nb [text] else field_text_leaves e text.
Proof. exact parse_field_leaves. Qed.
Print Assumptions C03_field_keeps_leaves.

Theorem C03_component_keeps_leaves : forall t lvl e leaf text name dt reference c,
  parse_component t lvl e leaf text name dt reference = Ok c ->
  comp_leaves c = comp_text_leaves e text.
Proof. exact parse_component_leaves. Qed.
Print Assumptions C03_component_keeps_leaves.

Theorem C03_acceptance_appends_fields : forall t lvl kids s s',
  add_fields t lvl s kids = Ok s' -> s_children s' = s_children s ++ kids.
Proof. intros t lvl kids s s' H. exact (proj1 (add_fields_appends t lvl kids s s' H)). Qed.
Print Assumptions C03_acceptance_appends_fields.

(* non-vacuity: a v2.5 line with a surplus field, a repeated field, extra components *)
Definition ex_line : str := "PID|1||A^B^^C&D~E||Doe^John|||||||||||||||||||||||||||||||||||beyond|more^x".
Example C03_example_accepted :
  match parse_segment Gen.Tables_v2_5.tables TOLERANT default_ec (leaf_enc "2.5" TOLERANT default_ec) ex_line None with
  | Ok s => map BS (seg_leaves s)
  | Err _ => []
  end = ["1"; "A"; "B"; "C"; "D"; "E"; "Doe"; "John"; "beyond"; "more"; "x"].
Proof. vm_compute. reflexivity. Qed.

(* ================================================================================== *)
(* Encoder side (Proofs/EncodeLeaves.v): Element.to_er7 emits every leaf that the tree holds, in
   order.  seg_enc_leaves s are the non-blank ENCODED leaf texts (sc_enc) of the tree in order;
   line_text_leaves splits the encoded line all the way down as above.  Together with
   C03_segment_keeps_leaves: the leaves of encode(parse(line)) are the encoded leaves of the line,
   none dropped, none reordered - for EVERY accepted line of a table segment or Z-segment:
   surplus fields beyond the table (kept as unnamed children, or as <SEG>_i of type varies in
   open-ended segments), surplus components and subcomponents (kept unnamed), blank pieces,
   trailing empties, repeated non-repeatable fields. *)
From HL7 Require Import Model.Encode Model.Wf Model.Escape Gen.Tables.
From HL7 Require Import Proofs.RoundTripStr Proofs.RoundTripCore Proofs.RoundTripZ Proofs.RoundTripSeg
  Proofs.RoundTripTables Proofs.RoundTripSegTables Proofs.EncodeLeaves.

(* any tree that satisfies the placement invariant seg_ok (children under the names of the
   structure in order, then the unnamed ones; base-typed / untyped / varies elements emit all
   their children; encoded leaves contain no separator) *)
Theorem C03_encoder_emits_all_leaves : forall t e s, ec_ok e -> seg_ok t e s ->
  exists out, enc_segment t e s false = Ok out /\
              (bmem CR out = false -> line_text_leaves e out = seg_enc_leaves s).
Proof. intros t e s He. exact (enc_segment_leaves t e He s). Qed.
Print Assumptions C03_encoder_emits_all_leaves.

(* every line that parse_segment accepts for a segment of a supported version (the wildcard
   ANYHL7SEGMENT and MSH apart), with any leaf encoder that never emits a separator *)
Theorem C03_segment_leaves_preserved : forall v t, tables_of v = Some t ->
  forall e, ec_ok e ->
  forall leaf, (forall d x y, leaf d x = Ok y -> sep_free e y) ->
  forall sn r, In (sn, r) (t_segments t) -> sn <> unbs "ANYHL7SEGMENT" -> sn <> unbs "MSH" ->
  forall text s, seg_name_of text = sn ->
    parse_segment t TOLERANT e leaf text None = Ok s ->
    exists out, enc_segment t e s false = Ok out /\
                (bmem CR out = false -> line_text_leaves e out = seg_enc_leaves s).
Proof.
  intros v t Ht e He leaf HL sn r Hin Ha Hm text s Hname Hp.
  destruct (shipped_table_facts v t Ht) as [Hst [Hvar _]].
  destruct (shipped_segment_ok v t sn r Ht Hin Ha Hm) as [Hl [srows [-> [H3 [Hup [Hmsh [Hz [Hc [Hrows [Hnof HnoC]]]]]]]]]].
  apply (enc_segment_leaves t e He s). apply seg_ok_of_shape.
  - exact (parse_table_segment_shape t e leaf Hst Hvar sn srows H3 Hup Hmsh Hz Hl Hc Hrows Hnof HnoC text s Hname Hp).
  - exact (parse_segment_clean t TOLERANT e leaf text None s HL Hp).
Qed.
Print Assumptions C03_segment_leaves_preserved.

(* ... and of a Z-segment *)
Theorem C03_segment_leaves_preserved_Z : forall v t, tables_of v = Some t ->
  forall e, ec_ok e ->
  forall leaf, (forall d x y, leaf d x = Ok y -> sep_free e y) ->
  forall a b, bupper a = a -> bupper b = b ->
  forall text s, seg_name_of text = zname a b ->
    parse_segment t TOLERANT e leaf text None = Ok s ->
    exists out, enc_segment t e s false = Ok out /\
                (bmem CR out = false -> line_text_leaves e out = seg_enc_leaves s).
Proof.
  intros v t Ht e He leaf HL a b Ha Hb text s Hname Hp.
  destruct (shipped_table_facts v t Ht) as [Hst [Hvar [Hzf _]]].
  assert (Hup : upper (zname a b) = zname a b) by (unfold zname, upper; cbn [map]; now rewrite Ha, Hb).
  assert (Hnf : forall i, slookup (name_idx (zname a b) i) (t_fields t) = None)
    by (intros i; now apply no_z_fields_lookup).
  apply (enc_segment_leaves t e He s). apply seg_ok_of_shape.
  - exact (parse_z_segment_shape t e leaf Hst Hvar a b Hup Hnf text s Hname Hp).
  - exact (parse_segment_clean t TOLERANT e leaf text None s HL Hp).
Qed.
Print Assumptions C03_segment_leaves_preserved_Z.

(* the hypothesis on the leaf encoder holds for hl7apy's: every output is an `escape` output (C06) *)
Theorem C03_leaf_encoder_emits_no_separator : forall v e d x y, ec_valid esc_family_0 e = true ->
  leaf_enc v TOLERANT e d x = Ok y -> sep_free e y.
Proof. intros v e d x y. exact (leaf_enc_sep_free v e d x y). Qed.
Print Assumptions C03_leaf_encoder_emits_no_separator.

(* the non-canonical line above: nothing is lost by encoding either *)
Example C03_example_encoded :
  match parse_segment Gen.Tables_v2_5.tables TOLERANT default_ec (leaf_enc "2.5" TOLERANT default_ec) ex_line None with
  | Ok s => match enc_segment Gen.Tables_v2_5.tables default_ec s false with
            | Ok out => (map BS (line_text_leaves default_ec out), map BS (seg_enc_leaves s), bmem CR out)
            | Err _ => ([], [], true) end
  | Err _ => ([], [], true)
  end = (["1"; "A"; "B"; "C"; "D"; "E"; "Doe"; "John"; "beyond"; "more"; "x"],
         ["1"; "A"; "B"; "C"; "D"; "E"; "Doe"; "John"; "beyond"; "more"; "x"], false).
Proof. vm_compute. reflexivity. Qed.
