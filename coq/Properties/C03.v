(* C03 - Parsing never silently drops or reorders content.  Parser side, proved for every text,
   every table, every delimiter set and both validation levels (Proofs/NoDrop.v):
   an accepted segment line yields exactly one Field per non-blank field repetition of the text,
   in text order, and the non-blank leaf texts held by the tree are exactly the non-blank leaf texts
   of the line, in the same order; child admission appends the children it is given unchanged.
   NOT proved here (decided by the correspondence run and the oracle of harness/c03.py): that the
   ENCODER emits every held leaf (Model/Encode.v places children by name), and the message level
   (segment sequence, group finding), which needs Model/Message.v. *)
From Coq Require Import List Bool NArith Init.Byte.
From HL7 Require Import Lib.Str Model.Ec Model.Result Model.Ref Model.Tree Model.Parser Model.Leaf
     Proofs.NoDrop Gen.Params.
From HL7 Require Gen.Tables_v2_5.
Import ListNotations.
Open Scope bs_scope.

Theorem C03_segment_keeps_leaves : forall t lvl e leaf text reference s,
  parse_segment t lvl e leaf text reference = Ok s ->
  seg_leaves s = line_text_leaves e text.
Proof. exact parse_segment_keeps_leaves. Qed.
Print Assumptions C03_segment_keeps_leaves.

Theorem C03_segment_keeps_all_fields : forall t lvl e leaf text reference s,
  parse_segment t lvl e leaf text reference = Ok s ->
  length (s_children s) =
  fold_right (fun p n => expected_fields e (seg_name_of text) p + n) 0
             (indexed (bsplit (fsep e) (strip_cr (seg_rest_of text)))).
Proof. exact parse_segment_keeps_all_fields. Qed.
Print Assumptions C03_segment_keeps_all_fields.

Theorem C03_field_keeps_leaves : forall t lvl e leaf text name reference fv f,
  parse_field t lvl e leaf text name reference fv = Ok f ->
  field_leaves f = if is_msh12 name then keep_nb [text] else field_text_leaves e text.
Proof. exact parse_field_leaves. Qed.
Print Assumptions C03_field_keeps_leaves.

Theorem C03_component_keeps_leaves : forall t lvl e leaf text name dt reference c,
  parse_component t lvl e leaf text name dt reference = Ok c ->
  comp_leaves c = comp_text_leaves e text.
Proof. exact parse_component_leaves. Qed.
Print Assumptions C03_component_keeps_leaves.

Theorem C03_admission_appends_fields : forall t lvl kids s s',
  add_fields t lvl s kids = Ok s' -> s_children s' = s_children s ++ kids.
Proof. intros t lvl kids s s' H. exact (proj1 (add_fields_appends t lvl kids s s' H)). Qed.
Print Assumptions C03_admission_appends_fields.

(* non-vacuity: a v2.5 line with a surplus field, a repeated field, extra components *)
Definition ex_line : str := "PID|1||A^B^^C&D~E||Doe^John|||||||||||||||||||||||||||||||||||beyond|more^x".
Example C03_example_accepted :
  match parse_segment Gen.Tables_v2_5.tables TOLERANT default_ec (leaf_enc "2.5" TOLERANT default_ec) ex_line None with
  | Ok s => map BS (seg_leaves s)
  | Err _ => []
  end = ["1"; "A"; "B"; "C"; "D"; "E"; "Doe"; "John"; "beyond"; "more"; "x"].
Proof. vm_compute. reflexivity. Qed.
