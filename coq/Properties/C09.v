(* C09 - child mutations behave like edits of an ordered list.

   Model: coq/Model/Heap.v; specification: coq/Model/HeapSpec.v - the children of an element are
   ONE ordered list of (name, repetition), `abs`, whose sub-list of a name is the ordered list of
   repetitions of that name (C09_by_name); the edits are spec_append / spec_replace / spec_remove.
   The statements below are about the SUCCESSFUL runs of the methods every public mutation goes
   through (Element.add, ElementList.replace_child, ElementList.remove), for all heaps:
     - addition appends (C09_refines_add),
     - assignment to an existing repetition replaces it in place (C09_refines_replace) and never
       changes the order of the other children (C09_order_stable),
     - deletion removes exactly the addressed child (C09_refines_remove),
     - no other element's children change (the `edit` frame), lifted to whole histories of such
       calls by fold_left (C09_refines),
     - the encoding is a function of the visible part, hence of the abstraction (C09_encoding).
     - the index-addressed WHOLE operations (Proofs/HeapIndexed.v):
         children.remove_by_name(name, i)  removes repetition i of the name - a Python index, i < 0
           counts from the end, i.e. repetition len+i - and nothing else (C09_remove_by_name_refines,
           C09_remove_others_in_order);
         children.set(name, text, i), which x.<name>[i] = text is once the proxy is resolved
           (C09_set_index_is_set), replaces repetition i (len+i for i < 0) in place by a freshly parsed
           child, or appends it when there is no such repetition (C09_set_index_refines);
         both lifted to sequences of such operations against the plain list semantics `arun`
         (C09_refines_indexed), with a computed run as witness (C09_refines_indexed_instance).
       Side conditions, each stated: the addressed element is allocated and not itself waiting under
       a traversal parent (otherwise the final promotion also lists it under that parent), and
       `settled`: none of its listed children names it as traversal parent too (the condition of
       C09_refines_remove / _replace).
   Partial: right-hand sides other than text and targets reached through lazily created chains are
   left to the correspondence run (C11_write_materialises covers the chains); F19 (a value assigned to VARIES_n of a bare varies field is not encoded) is
   a defect of the value's sub-structure, recorded by C09_value_lost_refuted. *)
From Coq Require Import List Bool Arith Lia ZArith NArith Init.Byte.
From HL7 Require Import Lib.Str Model.Ec Model.Result Model.Ref Model.Tree Model.Leaf Model.Heap Model.HeapSpec Gen.Params.
From HL7 Require Import Proofs.HeapFacts Proofs.HeapInv Proofs.HeapStep Proofs.HeapAtomic Proofs.HeapRefine Proofs.HeapIndexed.
From HL7 Require Gen.Tables_v2_5.
Import ListNotations.
Open Scope bs_scope.

(* the repetitions of a name are the by-name index: lookup by name reads the one list *)
Theorem C09_by_name : forall s p k, Inv s -> reps (abs s p) k = iget k (n_idx (getn s p)).
Proof. exact reps_index. Qed.
Print Assumptions C09_by_name.

(* addition appends (a child that is merely a traversal child of p is indexed, not listed) *)
Theorem C09_refines_add : forall (t : tables) (p c : nat) (s s' : store),
  add t p c s = (s', Ok tt) -> listing_add s p c = true ->
  abs s' p = spec_append (abs s p) (n_name (getn s c)) c /\
  forall q, q <> p -> abs s' q = abs s q.
Proof.
  intros t p c s s' H L. pose proof (add_ok t p c s s' H) as E. rewrite L in E. split.
  - now apply abs_append.
  - intros q Hq. eapply abs_edit_other; eauto.
Qed.
Print Assumptions C09_refines_add.

(* replacement is in place: the list is the old list with `old` mapped to `new` *)
Theorem C09_refines_replace : forall (t : tables) (p old new : nat) (s s' : store),
  replace_child t p old new s = (s', Ok tt) -> oid_eqb (n_tparent (getn s old)) p = false -> Inv s ->
  abs s' p = spec_replace (abs s p) old (n_name (getn s new)) new /\
  forall q, q <> p -> abs s' q = abs s q.
Proof.
  intros t p old new s s' H Et I.
  destruct (replace_child_ok t p old new s s' H Et (I_nodup s I p)) as [_ E]. split.
  - now apply abs_replace.
  - intros q Hq. eapply abs_edit_other; eauto.
Qed.
Print Assumptions C09_refines_replace.

(* deletion removes exactly the addressed child *)
Theorem C09_refines_remove : forall (p c : nat) (s s' : store),
  remove_child p c s = (s', Ok tt) -> oid_eqb (n_tparent (getn s c)) p = false ->
  abs s' p = spec_remove (abs s p) c /\ forall q, q <> p -> abs s' q = abs s q.
Proof.
  intros p c s s' H Et. pose proof (remove_child_ok p c s s' H) as E. rewrite Et in E. split.
  - now apply abs_remove.
  - intros q Hq. eapply abs_edit_other; eauto.
Qed.
Print Assumptions C09_refines_remove.

(* all histories of additions, deletions and in-place replacements (unbounded), by induction over the
   list of calls: the children of EVERY element at the end are what the plain list model computes *)
Theorem C09_refines : forall (t : tables) (s s' : store) (ops : list mop),
  good_run t s ops s' ->
  forall q, abs s' q = fold_left (spec_mstep (fun c => n_name (getn s c))) ops (abs s) q.
Proof. intros t s s' ops H. exact (refines_fold t s ops s' H). Qed.
Print Assumptions C09_refines.

(* ---------- the index-addressed whole operations ---------- *)

(* children.remove_by_name(name, i): repetition i (Python index) of the key the name resolves to is
   removed from the list; every other element, and every name, is as before *)
Theorem C09_remove_by_name_refines :
  forall (t : tables) (x : nat) (name : str) (i : Z) (s s' : store),
    Inv s -> settled s x ->
    remove_by_name t x name i s = (s', Ok tt) ->
    exists cname cref,
      fcr t (getn s x) (upper name) = Ok (cname, cref) /\
      abs s' x = spec_remove_at (abs s x) (Some (if streqb cname name then name else cname)) i /\
      (forall q, q <> x -> abs s' q = abs s q) /\ (forall c, n_name (getn s' c) = n_name (getn s c)).
Proof. exact remove_by_name_refines. Qed.
Print Assumptions C09_remove_by_name_refines.

(* ... and the others keep their order *)
Theorem C09_remove_others_in_order : forall (a : absl) (c : nat), others (spec_remove a c) c = others a c.
Proof. exact others_remove. Qed.
Print Assumptions C09_remove_others_in_order.

(* children.set(name, text, i): repetition i (Python index) of the key is replaced in place by a fresh
   child carrying that key - or the child is appended when there is no such repetition; the other
   existing elements keep their children, every existing element its name *)
Theorem C09_set_index_refines :
  forall (t : tables) (e : ec) (le : level -> option str -> str -> result str)
         (p : nat) (name txt : str) (i : Z) (s s' : store),
    Inv s -> p < s_next s -> n_tparent (getn s p) = None -> settled s p ->
    set_child t e le false p name (VText txt) i s = (s', Ok tt) ->
    exists cname cref child,
      fcr t (getn s p) (upper name) = Ok (cname, cref) /\ s_next s <= child /\
      abs s' p = spec_assign_at (abs s p) (Some cname) i child /\
      (forall q, q < s_next s -> q <> p -> abs s' q = abs s q) /\
      (forall c, c < s_next s -> n_name (getn s' c) = n_name (getn s c)) /\
      s_next s <= s_next s' /\ Inv s' /\ n_tparent (getn s' p) = None.
Proof. exact set_child_refines. Qed.
Print Assumptions C09_set_index_refines.

(* x.<name>[i] = v is that call once the proxy (x, NAME) is resolved *)
Theorem C09_set_index_is_set :
  forall (t : tables) (e : ec) (le : level -> option str -> str -> result str)
         (x : nat) (name : str) (i : Z) (v : value) (s : store) (pn : str),
    proxy_name_plain t (getn s x) name = Ok pn ->
    set_index t e le false x name i v s = set_child t e le false x pn v i s.
Proof. exact set_index_direct. Qed.
Print Assumptions C09_set_index_is_set.

(* sequences of such operations (unbounded): the children of every element follow the plain list
   semantics, and the invariant is kept *)
Theorem C09_refines_indexed :
  forall (t : tables) (e : ec) (le : level -> option str -> str -> result str) (s : store) (ops : list iop) (s' : store),
    Inv s -> good_irun t e le s ops s' ->
    arun (s_next s) (abs s) ops (s_next s') (abs s') /\ Inv s'.
Proof. exact refines_indexed. Qed.
Print Assumptions C09_refines_indexed.

(* replacing one child never changes the order of the others, and the replacement sits where the
   replaced child sat *)
Theorem C09_order_stable : forall (a : absl) (old : nat) (k : option str) (new : nat),
  ~ In new (map snd a) ->
  others (spec_replace a old k new) new = others a old /\
  map (fun x => Nat.eqb (snd x) new) (spec_replace a old k new)
  = map (fun x => Nat.eqb (snd x) old || Nat.eqb (snd x) new) a.
Proof. intros a old k new N. split; [now apply others_replace|apply position_replace]. Qed.
Print Assumptions C09_order_stable.

(* the encoding is a function of the visible part of the heap (children lists, by-name indexes,
   names, datatypes, values): two heaps with the same visible part encode every element alike *)
Theorem C09_encoding : forall (t : tables) (e : ec) (s s' : store),
  vis_eq s s' -> forall x b, to_er7 t e s' x b = to_er7 t e s x b.
Proof. exact to_er7_vis. Qed.
Print Assumptions C09_encoding.

(* ---------- computed instances (v2.5 tables) ---------- *)

Definition t25 := Gen.Tables_v2_5.tables.
Definition e25 : ec := mk_ec "|" "^" "~" "\" "&" None.
Definition le25 (l : level) := leaf_enc "2.5" l e25.
Fixpoint run25 (r : rstate) (ops : list op) : rstate :=
  match ops with [] => r | o :: k => run25 (fst (fst (step t25 e25 le25 true r o))) k end.
Definition nm (x : bs) : list str := [unbs x].
Definition enc0 (ops : list op) : str := to_er7 t25 e25 (r_store (run25 init_rstate ops)) 0 false.

(* A~B~C: assigning the first repetition gives X~B~C (the F7 witness of the pinned tree, fixed by
   0f895c9); assigning an absent one appends; deleting the second gives A~C *)
Example C09_in_place_instance :
  let abc := [ONewSeg TOLERANT "PID"; OSetIndex 0 (nm "pid_3") 0%Z (HText "A"); OSetIndex 0 (nm "pid_3") 1%Z (HText "B");
              OSetIndex 0 (nm "pid_3") 2%Z (HText "C"); OSetAttr 0 (nm "pid_5") (HText "n")] in
  enc0 abc = unbs "PID|||A~B~C||n" /\
  enc0 (abc ++ [OSetAttr 0 (nm "pid_3") (HText "X")]) = unbs "PID|||X~B~C||n" /\
  enc0 (abc ++ [OSetIndex 0 (nm "pid_3") 1%Z (HText "X")]) = unbs "PID|||A~X~C||n" /\
  enc0 (abc ++ [OSetIndex 0 (nm "pid_3") 5%Z (HText "X")]) = unbs "PID|||A~B~C~X||n" /\
  enc0 (abc ++ [ODelIndex 0 (nm "pid_3") 1%Z]) = unbs "PID|||A~C||n" /\
  enc0 (abc ++ [OSetListIndex 0 1 (HText "X")]) = unbs "PID|||A~X~C||n".
Proof. vm_compute. repeat split. Qed.

(* negative proxy indexes address from the end, and a datatype object replaces in place (F20, fixed) *)
Example C09_negative_index_instance :
  let abcd := [ONewSeg TOLERANT "PID"; OSetIndex 0 (nm "pid_3") 0%Z (HText "A"); OSetIndex 0 (nm "pid_3") 1%Z (HText "B");
               OSetIndex 0 (nm "pid_3") 2%Z (HText "C"); OSetIndex 0 (nm "pid_3") 3%Z (HText "D")] in
  enc0 (abcd ++ [OSetIndex 0 (nm "pid_3") (-2)%Z (HText "X")]) = unbs "PID|||A~B~X~D" /\
  enc0 (abcd ++ [ODelIndex 0 (nm "pid_3") (-1)%Z]) = unbs "PID|||A~B~C" /\
  enc0 (abcd ++ [OSetIndex 0 (nm "pid_3") (-9)%Z (HText "X")]) = unbs "PID|||A~B~C~D~X" /\
  enc0 [ONewSeg TOLERANT "PID"; OSetAttr 0 (nm "pid_8") (HText "A"); OSetAttr 0 (nm "pid_8") (HDt "IS" "B")] = unbs "PID||||||||B".
Proof. vm_compute. repeat split. Qed.

(* F19: Field('OBX_5').varies_1 = 'a' - the component is listed, its value is not encoded *)
Theorem C09_value_lost_refuted :
  let r := run25 init_rstate [ONewField TOLERANT (Some (unbs "OBX_5")) None; OSetAttr 0 (nm "varies_1") (HText "a")] in
  length (n_list (getn (r_store r) 0)) = 1 /\ to_er7 t25 e25 (r_store r) 0 false = [].
Proof. vm_compute. split; reflexivity. Qed.
Print Assumptions C09_value_lost_refuted.

(* a run that meets every side condition: A, B, C assigned to pid_3[0..2]; pid_3[-2] = X replaces B in
   place; remove_by_name('pid_3', -1) removes C; pid_3[7] = Y appends *)
Definition s_pid : store := r_store (run_hist t25 e25 le25 false init_rstate [ONewSeg TOLERANT "PID"]).
Definition pid3_run : list iop :=
  let k := Some (unbs "PID_3") in
  [IAssignAt 0 (unbs "pid_3") k 0%Z (unbs "A"); IAssignAt 0 (unbs "pid_3") k 1%Z (unbs "B");
   IAssignAt 0 (unbs "pid_3") k 2%Z (unbs "C"); IAssignAt 0 (unbs "pid_3") k (-2)%Z (unbs "X");
   IRemoveAt 0 (unbs "pid_3") k (-1)%Z; IAssignAt 0 (unbs "pid_3") k 7%Z (unbs "Y")].

Example C09_refines_indexed_instance :
  let s' := irun_end t25 e25 le25 s_pid pid3_run in
  Inv s_pid /\ good_irun t25 e25 le25 s_pid pid3_run s' /\
  arun (s_next s_pid) (abs s_pid) pid3_run (s_next s') (abs s') /\
  to_er7 t25 e25 s' 0 false = unbs "PID|||A~X~Y" /\ length (abs s' 0) = 3.
Proof.
  assert (I : Inv s_pid).
  { assert (H : RInv (run_hist t25 e25 le25 false init_rstate [ONewSeg TOLERANT "PID"])).
    { apply hist_inv; [exact RInv_init|]. vm_compute. repeat split; auto. }
    exact (proj1 H). }
  assert (G : good_irun t25 e25 le25 s_pid pid3_run (irun_end t25 e25 le25 s_pid pid3_run)).
  { apply good_irun_b. vm_compute. reflexivity. }
  cbv zeta. split; [exact I|]. split; [exact G|]. split; [exact (proj1 (C09_refines_indexed _ _ _ _ _ _ I G))|].
  vm_compute. split; reflexivity.
Qed.
