(* C04 - validate() accepts conforming messages and pinpoints each structural defect.
   Theorems only; proofs live in Proofs/ValidateFacts.v.  Model: Model/Validate.v (Validator.validate
   over the trees of Model/Tree.v and Model/MsgTree.v, structured errors, the public wrapper).

   Vocabulary (defined in Proofs/ValidateFacts.v and Model/Validate.v):
     validate_errors t e s            the errors of Segment.validate() (Err = an exception escaped)
     validate_message_errors t l e m  the errors of Message.validate()
     conforms t s / conf_seg t ref s  DECLARATIVE reading of the reference: every child's name is declared
                                      (Z-children exempt and validated on their own), for every declared name
                                      the number of children of that name lies between the sum of the minima
                                      and the sum of the maxima of its declarations (-1 = unbounded), every
                                      child conforms to the reference declared for its name, a leaf has the
                                      declared datatype or is `varies`, no element is unknown
     conf_message t m                 the same for a message (groups recurse)
     linked t e s / linked_message    DOMAIN (decidable, Model/Validate.v): at every visited element the
                                      reference is well formed (rows well shaped, a name declared twice only with unbounded cardinalities,
                                      declared leaf datatypes base/varies/None) and the element's own structure
                                      resolves each declared child name to itself - true of every tree the
                                      parser builds from the standard tables except under structures that
                                      declare one name twice with a BOUNDED cardinality (evaluated on every tree of the correspondence run)
   Purity and determinism hold in the model by construction (functions of immutable trees); on the
   implementation they are observed by harness/c04.py. *)
From Coq Require Import List Bool ZArith NArith Init.Byte.
From HL7 Require Import Lib.Str Model.Ec Model.Result Model.Ref Model.Tree Model.Parser Model.Encode Model.Leaf
                        Model.MsgTree Model.Validate Proofs.ValidateFacts Proofs.ValidateZ Gen.Params.
From HL7 Require Gen.Tables_v2_5.
Import ListNotations.
Open Scope bs_scope.
Open Scope res_scope.

(* ---- soundness and completeness, segment level: ALL trees, ALL tables ---- *)
Theorem C04_sound_complete : forall t e s,
  linked t e s = true -> (validate_errors t e s = Ok [] <-> conforms t s).
Proof. exact validate_sound_complete. Qed.
Print Assumptions C04_sound_complete.

(* the same against any reference handed to Validator.validate (a message profile has the same shape) *)
Theorem C04_sound_complete_reference : forall t e ref s,
  linked_seg t e ref s = true -> (validate_errors_with t e ref s = Ok [] <-> conf_seg t ref s).
Proof. exact validate_with_sound_complete. Qed.
Print Assumptions C04_sound_complete_reference.

(* ---- soundness and completeness, message level (groups nest arbitrarily deep) ---- *)
Theorem C04_sound_complete_message : forall t lvl e m,
  linked_message t lvl e m = true -> (validate_message_errors t lvl e m = Ok [] <-> conf_message t m).
Proof. exact validate_message_sound_complete. Qed.
Print Assumptions C04_sound_complete_message.

(* ---- the statement without the premise on names declared twice is FALSE of the faithful model (F15):
        the validator counts children per name against EACH declaration of that name ---- *)
Theorem C04_duplicate_names_refuted :
  conforms dup_tables dup_seg /\
  validate_errors dup_tables dup_ec dup_seg =
    Ok [LimitExceeded (Some (unbs "PID")) "PID_1"; LimitExceeded (Some (unbs "PID")) "PID_1"] /\
  linked dup_tables dup_ec dup_seg = false.
Proof. split; [exact dup_conforms | split; [exact dup_validate | vm_compute; reflexivity]]. Qed.
Print Assumptions C04_duplicate_names_refuted.

(* ---- named errors, segment level (s is not a Z-segment; rows = the rows of its reference) ---- *)
Theorem C04_missing_required : forall t e s ch rows oi vc es,
  seg_is_z s = false -> view_of t (st_reference (s_st s)) = VSeq ch rows oi ->
  In (Some vc) rows -> resolve_seg s (vc_name vc) = Some (vc_name vc) ->
  (Z.of_nat (length (named_kids f_name (s_children s) (vc_name vc))) < vc_mn vc)%Z ->
  validate_errors t e s = Ok es -> In (MissingRequired (Some (s_name s)) (vc_name vc)) es.
Proof. intros t e s ch rows oi vc es NZ HV. now apply (seg_missing_required t e s ch rows oi NZ HV). Qed.
Print Assumptions C04_missing_required.

Theorem C04_limit_exceeded : forall t e s ch rows oi vc es,
  seg_is_z s = false -> view_of t (st_reference (s_st s)) = VSeq ch rows oi ->
  In (Some vc) rows -> resolve_seg s (vc_name vc) = Some (vc_name vc) ->
  vc_mx vc <> (-1)%Z -> (vc_mn vc <= vc_mx vc)%Z ->
  (Z.of_nat (length (named_kids f_name (s_children s) (vc_name vc))) > vc_mx vc)%Z ->
  validate_errors t e s = Ok es -> In (LimitExceeded (Some (s_name s)) (vc_name vc)) es.
Proof. intros t e s ch rows oi vc es NZ HV. now apply (seg_limit_exceeded t e s ch rows oi NZ HV). Qed.
Print Assumptions C04_limit_exceeded.

Theorem C04_foreign_child : forall t e s ch rows oi k es,
  seg_is_z s = false -> view_of t (st_reference (s_st s)) = VSeq ch rows oi ->
  In k (s_children s) -> field_is_z k = false -> omem (f_name k) (row_names rows) = false ->
  validate_errors t e s = Ok es ->
  exists names, In (InvalidChildren (Some (s_name s)) names) es /\ In (f_name k) names.
Proof. intros t e s ch rows oi k es NZ HV. now apply (seg_foreign_child t e s ch rows oi NZ HV). Qed.
Print Assumptions C04_foreign_child.

(* an unknown (unnamed) field: listed by name None among the invalid children; under a Z-segment
   (whose children are validated one by one) it draws "Unknown element found" *)
Theorem C04_unknown_child : forall t e s k es,
  In k (s_children s) -> validate_errors t e s = Ok es ->
  (forall ch rows oi, seg_is_z s = false -> view_of t (st_reference (s_st s)) = VSeq ch rows oi -> f_name k = None ->
     exists names, In (InvalidChildren (Some (s_name s)) names) es /\ In None names) /\
  (seg_is_z s = true -> field_unknown k = true -> In (UnknownElement (Some (s_name s)) (f_name k)) es).
Proof.
  intros t e s k es Hk H. split.
  - intros ch rows oi NZ HV Hn. now apply (seg_unknown_child t e s ch rows oi NZ HV k es).
  - intros HZ HU. now apply (zseg_unknown_child t e s k es).
Qed.
Print Assumptions C04_unknown_child.

(* ---- named errors, message level (named message that is not a Z-message; rows = rows of its reference) ---- *)
Theorem C04_missing_required_message : forall t lvl e m mn r ch rows oi vc es,
  m_name m = Some mn -> valid_z_message_name mn = false ->
  ref_or_load (t_messages t) (m_name m) (option_map st_reference (m_st m)) = Some r ->
  view_of t r = VSeq ch rows oi -> In (Some vc) rows ->
  resolve_group t lvl false (m_st m) (m_children m) (vc_name vc) = Some (vc_name vc) ->
  (Z.of_nat (length (named_kids node_name (m_children m) (vc_name vc))) < vc_mn vc)%Z ->
  validate_message_errors t lvl e m = Ok es -> In (MissingRequired (Some mn) (vc_name vc)) es.
Proof. intros t lvl e m mn r ch rows oi vc es HN NZ HR HV. now apply (msg_missing_required t lvl e m mn r ch rows oi HN NZ HR HV). Qed.
Print Assumptions C04_missing_required_message.

Theorem C04_limit_exceeded_message : forall t lvl e m mn r ch rows oi vc es,
  m_name m = Some mn -> valid_z_message_name mn = false ->
  ref_or_load (t_messages t) (m_name m) (option_map st_reference (m_st m)) = Some r ->
  view_of t r = VSeq ch rows oi -> In (Some vc) rows ->
  resolve_group t lvl false (m_st m) (m_children m) (vc_name vc) = Some (vc_name vc) ->
  vc_mx vc <> (-1)%Z -> (vc_mn vc <= vc_mx vc)%Z ->
  (Z.of_nat (length (named_kids node_name (m_children m) (vc_name vc))) > vc_mx vc)%Z ->
  validate_message_errors t lvl e m = Ok es -> In (LimitExceeded (Some mn) (vc_name vc)) es.
Proof. intros t lvl e m mn r ch rows oi vc es HN NZ HR HV. now apply (msg_limit_exceeded t lvl e m mn r ch rows oi HN NZ HR HV). Qed.
Print Assumptions C04_limit_exceeded_message.

Theorem C04_foreign_child_message : forall t lvl e m mn r ch rows oi k es,
  m_name m = Some mn -> valid_z_message_name mn = false ->
  ref_or_load (t_messages t) (m_name m) (option_map st_reference (m_st m)) = Some r ->
  view_of t r = VSeq ch rows oi ->
  In k (m_children m) -> node_is_z k = false -> omem (node_name k) (row_names rows) = false ->
  validate_message_errors t lvl e m = Ok es ->
  exists names, In (InvalidChildren (Some mn) names) es /\ In (node_name k) names.
Proof. intros t lvl e m mn r ch rows oi k es HN NZ HR HV. now apply (msg_foreign_child t lvl e m mn r ch rows oi HN NZ HR HV). Qed.
Print Assumptions C04_foreign_child_message.

(* a message whose type is unknown (no name, no structure) *)
Theorem C04_unknown_message : forall t lvl e m, m_name m = None ->
  validate_message_errors t lvl e m = Ok [UnknownElement None None].
Proof. exact msg_unknown. Qed.
Print Assumptions C04_unknown_message.

(* ================================================================================================ *)
(* Z MESSAGES (the message name is a Z name, e.g. ZDT_Z01: Message.is_z_element()).  validation.py sends
   them through _check_z_element: the message's own reference (the empty ('sequence', ()) of
   Message.__init__, or whatever a message profile declares under that name) is never read; every child is
   validated on its own with no reference - a standard segment against the entry of its name in the
   segment table of the version, a Z segment field by field, a group against the group table, anything
   else draws "Unknown element" / "Invalid element"; nothing is required, limited or foreign at the
   message level.  Proofs: Proofs/ValidateZ.v.
     z_child_log t lvl e mn k      the log of one child k of the Z message mn:
                                     NSeg s, Z segment     -> z_seg_log t e s  (its fields, one by one)
                                     NSeg s, otherwise     -> std_seg_log t e s = v_seg t e (Some r) s for the
                                                              table entry r of s's name, [InvalidElement] if none
                                     unnamed group         -> [UnknownElement (Some mn) None]
                                     group g               -> v_node against the group table's entry of g
     table_seg t s                 s is a Z segment or carries the table entry of its name as its structure
                                   (every segment created without a reference: all those of a parsed Z message) *)

(* the error log of a Z message: the concatenation (seq_res: in order, the first exception wins) of the logs
   of its children *)
Theorem C04_z_message_log : forall t lvl e m mn,
  m_name m = Some mn -> valid_z_message_name mn = true ->
  validate_message_log t lvl e m = seq_res (map (z_child_log t lvl e mn) (m_children m)).
Proof. exact z_message_log. Qed.
Print Assumptions C04_z_message_log.

(* spelled out on the error lists: when no child raises, the errors are the children's, concatenated *)
Theorem C04_z_message_errors : forall t lvl e m mn ess,
  m_name m = Some mn -> valid_z_message_name mn = true ->
  Forall2 (fun k es => lift_errors (z_child_log t lvl e mn k) = Ok es) (m_children m) ess ->
  validate_message_errors t lvl e m = Ok (concat ess).
Proof. exact z_message_errors_concat. Qed.
Print Assumptions C04_z_message_errors.

(* the log of a segment child is the log of Segment.validate() on that segment alone; so a Z message made of
   segments is validated segment by segment *)
Theorem C04_z_message_segmentwise : forall t lvl e m mn segs,
  m_name m = Some mn -> valid_z_message_name mn = true ->
  m_children m = map NSeg segs -> (forall s, In s segs -> table_seg t s) ->
  validate_message_log t lvl e m = seq_res (map (validate_seg_log t e) segs).
Proof. exact z_message_segmentwise. Qed.
Print Assumptions C04_z_message_segmentwise.

(* soundness: every standard segment validates on its own (C04_sound_complete says when), every other child
   is a Z segment that validates on its own -> the Z message validates *)
Theorem C04_z_message_sound : forall t lvl e m mn segs,
  m_name m = Some mn -> valid_z_message_name mn = true ->
  m_children m = map NSeg segs ->
  (forall s, In s segs -> table_seg t s /\ validate_errors t e s = Ok []) ->
  validate_message_errors t lvl e m = Ok [].
Proof. exact z_message_sound. Qed.
Print Assumptions C04_z_message_sound.

(* soundness and completeness against the declarative reading: a Z message validates exactly when each of
   its segments conforms to the table entry of its name *)
Theorem C04_z_message_sound_complete : forall t lvl e m mn segs,
  m_name m = Some mn -> valid_z_message_name mn = true ->
  m_children m = map NSeg segs ->
  (forall s, In s segs -> table_seg t s /\ linked t e s = true) ->
  (validate_message_errors t lvl e m = Ok [] <-> forall s, In s segs -> conforms t s).
Proof. exact z_message_sound_complete. Qed.
Print Assumptions C04_z_message_sound_complete.

(* every error Validator.validate(segment, reference = table entry) reports on a standard segment of a Z
   message is reported for the message - whatever structure the segment itself carries *)
Theorem C04_z_message_reports_segment_errors : forall t lvl e m mn s r es,
  m_name m = Some mn -> valid_z_message_name mn = true -> In (NSeg s) (m_children m) ->
  seg_is_z s = false -> slookup (s_name s) (t_segments t) = Some r ->
  validate_message_errors t lvl e m = Ok es ->
  exists es_s, validate_errors_with t e (Some r) s = Ok es_s /\ incl es_s es.
Proof. exact z_message_reports_segment_errors. Qed.
Print Assumptions C04_z_message_reports_segment_errors.

(* ---- named errors: a single-point defect inside a standard segment s of a Z message makes the message fail
        with the error the segment-level theorems name (rows = the rows of the segment's table entry) ---- *)
Theorem C04_z_message_missing_required : forall t lvl e m mn s ch rows oi,
  m_name m = Some mn -> valid_z_message_name mn = true -> In (NSeg s) (m_children m) ->
  seg_is_z s = false -> slookup (s_name s) (t_segments t) = Some (st_reference (s_st s)) ->
  view_of t (st_reference (s_st s)) = VSeq ch rows oi ->
  forall vc es,
  In (Some vc) rows -> resolve_seg s (vc_name vc) = Some (vc_name vc) ->
  (Z.of_nat (length (named_kids f_name (s_children s) (vc_name vc))) < vc_mn vc)%Z ->
  validate_message_errors t lvl e m = Ok es -> In (MissingRequired (Some (s_name s)) (vc_name vc)) es.
Proof. exact z_message_missing_required. Qed.
Print Assumptions C04_z_message_missing_required.

Theorem C04_z_message_limit_exceeded : forall t lvl e m mn s ch rows oi,
  m_name m = Some mn -> valid_z_message_name mn = true -> In (NSeg s) (m_children m) ->
  seg_is_z s = false -> slookup (s_name s) (t_segments t) = Some (st_reference (s_st s)) ->
  view_of t (st_reference (s_st s)) = VSeq ch rows oi ->
  forall vc es,
  In (Some vc) rows -> resolve_seg s (vc_name vc) = Some (vc_name vc) ->
  vc_mx vc <> (-1)%Z -> (vc_mn vc <= vc_mx vc)%Z ->
  (Z.of_nat (length (named_kids f_name (s_children s) (vc_name vc))) > vc_mx vc)%Z ->
  validate_message_errors t lvl e m = Ok es -> In (LimitExceeded (Some (s_name s)) (vc_name vc)) es.
Proof. exact z_message_limit_exceeded. Qed.
Print Assumptions C04_z_message_limit_exceeded.

(* a field the segment's table entry does not declare (a field beyond the table) *)
Theorem C04_z_message_foreign_field : forall t lvl e m mn s ch rows oi,
  m_name m = Some mn -> valid_z_message_name mn = true -> In (NSeg s) (m_children m) ->
  seg_is_z s = false -> slookup (s_name s) (t_segments t) = Some (st_reference (s_st s)) ->
  view_of t (st_reference (s_st s)) = VSeq ch rows oi ->
  forall k es,
  In k (s_children s) -> field_is_z k = false -> omem (f_name k) (row_names rows) = false ->
  validate_message_errors t lvl e m = Ok es ->
  exists names, In (InvalidChildren (Some (s_name s)) names) es /\ In (f_name k) names.
Proof. exact z_message_foreign_field. Qed.
Print Assumptions C04_z_message_foreign_field.

(* an unknown (unnamed) field *)
Theorem C04_z_message_unknown_field : forall t lvl e m mn s ch rows oi,
  m_name m = Some mn -> valid_z_message_name mn = true -> In (NSeg s) (m_children m) ->
  seg_is_z s = false -> slookup (s_name s) (t_segments t) = Some (st_reference (s_st s)) ->
  view_of t (st_reference (s_st s)) = VSeq ch rows oi ->
  forall k es,
  In k (s_children s) -> f_name k = None ->
  validate_message_errors t lvl e m = Ok es ->
  exists names, In (InvalidChildren (Some (s_name s)) names) es /\ In None names.
Proof. exact z_message_unknown_field. Qed.
Print Assumptions C04_z_message_unknown_field.

(* ---- the other children: a segment that is neither a Z segment nor in the segment table of the version,
        and an unnamed group ---- *)
Theorem C04_z_message_invalid_segment : forall t lvl e m mn s es,
  m_name m = Some mn -> valid_z_message_name mn = true -> In (NSeg s) (m_children m) ->
  seg_is_z s = false -> slookup (s_name s) (t_segments t) = None ->
  validate_message_errors t lvl e m = Ok es -> In (InvalidElement (Some (s_name s))) es.
Proof. exact z_message_invalid_segment. Qed.
Print Assumptions C04_z_message_invalid_segment.

Theorem C04_z_message_unknown_child : forall t lvl e m mn st kids es,
  m_name m = Some mn -> valid_z_message_name mn = true -> In (NGrp None st kids) (m_children m) ->
  validate_message_errors t lvl e m = Ok es -> In (UnknownElement (Some mn) None) es.
Proof. exact z_message_unknown_child. Qed.
Print Assumptions C04_z_message_unknown_child.

(* ---- the hypotheses are those of every Z message rebuilt from text (build_message: Message('Zxx_Zxx') filled
        with parse_segment(line) for every line - what parse_message does for a Z message, whose empty
        structure hands no reference to any segment): its children are segments carrying their table
        entries, and its log is the concatenation of the logs Segment.validate() gives for each ---- *)
Theorem C04_z_message_built : forall t lvl e lenc n texts m lvl' e',
  slookup (upper n) (t_messages t) = None -> valid_z_message_name n = true ->
  build_message t lvl e lenc (Some n) (map ShSeg texts) = Ok m ->
  exists segs, m_children m = map NSeg segs /\ (forall s, In s segs -> table_seg t s) /\
               validate_message_log t lvl' e' m = seq_res (map (validate_seg_log t e') segs).
Proof. exact built_z_message_segmentwise. Qed.
Print Assumptions C04_z_message_built.

(* parse_segment(text) without a reference: the segment carries the table entry of its name (or is a Z segment) *)
Theorem C04_parsed_segment_table_seg : forall t lvl e leaf text s,
  parse_segment t lvl e leaf text None = Ok s -> table_seg t s.
Proof. exact parse_segment_table_seg. Qed.
Print Assumptions C04_parsed_segment_table_seg.

(* ---- what a Z message is NOT checked against: the structure it was created with.  The log does not depend
        on m_st - so a Z message that a MESSAGE PROFILE declares is not held against the profile (a required
        segment of the profile may be missing: recorded as a finding, see harness/c04.py z_profile_level);
        and a Z message without children validates ---- *)
Theorem C04_z_message_structure_ignored : forall t lvl e mn st st' kids,
  valid_z_message_name mn = true ->
  validate_message_log t lvl e (mk_message (Some mn) st kids) =
  validate_message_log t lvl e (mk_message (Some mn) st' kids).
Proof. exact z_message_structure_ignored. Qed.
Print Assumptions C04_z_message_structure_ignored.

Theorem C04_z_message_no_children : forall t lvl e m mn,
  m_name m = Some mn -> valid_z_message_name mn = true -> m_children m = [] ->
  validate_message_log t lvl e m = Ok [].
Proof. exact z_message_no_children. Qed.
Print Assumptions C04_z_message_no_children.

(* ---- the public wrapper ---- *)
Theorem C04_wrapper : forall l has_report return_errors,
  (* return_errors=True: is_valid exactly when the error list is empty *)
  (exists r, fst (validate_wrapper true has_report (Ok l)) = VReturned r /\
             r_errors r = errors_of l /\ r_warnings r = warnings_of l /\
             (r_is_valid r = true <-> r_errors r = [])) /\
  (* the raising form raises exactly the first reported error, and returns True when there is none *)
  fst (validate_wrapper false has_report (Ok l)) =
    match errors_of l with x :: _ => VRaised x | [] => VTrue end /\
  (* a report file lists exactly the reported errors, then the warnings *)
  snd (validate_wrapper return_errors true (Ok l)) = map LError (errors_of l) ++ map LWarning (warnings_of l) /\
  (* an exception from inside the validator escapes and nothing is written *)
  (forall x, validate_wrapper return_errors has_report (Err x) = (VExn x, [])).
Proof.
  intros l has_report return_errors. split; [apply wrapper_is_valid|]. split; [apply wrapper_raise|].
  split; [apply wrapper_report | intros x; apply wrapper_exn].
Qed.
Print Assumptions C04_wrapper.

(* ================================================================================================ *)
(* Examples: the hypotheses are satisfiable on the generated tables, and F15 on the real tables     *)

Local Notation T25 := Gen.Tables_v2_5.tables.
Local Notation e25 := (mk_ec "|" "^" "~" "\" "&" None).
Local Notation lenc25 := (leaf_enc "2.5" TOLERANT (mk_ec "|" "^" "~" "\" "&" None)).

(* a parsed PID segment is linked, conforms, and validates *)
Example C04_example_segment :
  match parse_segment T25 TOLERANT e25 lenc25 "PID|1||A^^^B&C||N^G" None with
  | Ok s => linked T25 e25 s = true /\ validate_errors T25 e25 s = Ok []
  | Err _ => False
  end.
Proof. vm_compute. split; reflexivity. Qed.

(* ... and without its required PID-5 the named error appears *)
Example C04_example_missing :
  match parse_segment T25 TOLERANT e25 lenc25 "PID|1||A^^^B&C" None with
  | Ok s => linked T25 e25 s = true /\
            validate_errors T25 e25 s = Ok [MissingRequired (Some (unbs "PID")) "PID_5"]
  | Err _ => False
  end.
Proof. vm_compute. split; reflexivity. Qed.

Local Notation msh25 mt := ("MSH|^~\&|A|B|C|D|20200101||" ++ mt ++ "|1|P|2.5").

(* a required-only ADT_A01 message is linked and validates *)
Example C04_example_message :
  match build_message T25 TOLERANT e25 lenc25 (Some (unbs "ADT_A01"))
          [ShSeg (msh25 "ADT^A01^ADT_A01"); ShSeg "EVN||20200101"; ShSeg "PID|||A||N"; ShSeg "PV1||I"] with
  | Ok m => linked_message T25 TOLERANT e25 m = true /\ validate_message_errors T25 TOLERANT e25 m = Ok []
  | Err _ => False
  end.
Proof. vm_compute. split; reflexivity. Qed.

(* F15 on the real tables: ADT_A17 declares PID and PV1 twice with cardinality (1,1); the instance with
   one PID/PV1 per declaration is rejected, and the structure is outside `linked_message` *)
Example C04_F15_ADT_A17 :
  match build_message T25 TOLERANT e25 lenc25 (Some (unbs "ADT_A17"))
          [ShSeg (msh25 "ADT^A17^ADT_A17"); ShSeg "EVN||20200101";
           ShSeg "PID|||A||N"; ShSeg "PV1||I"; ShSeg "PID|||B||M"; ShSeg "PV1||I"] with
  | Ok m => linked_message T25 TOLERANT e25 m = false /\
            validate_message_errors T25 TOLERANT e25 m =
              Ok [LimitExceeded (Some (unbs "ADT_A17")) "PID"; LimitExceeded (Some (unbs "ADT_A17")) "PV1";
                  LimitExceeded (Some (unbs "ADT_A17")) "PID"; LimitExceeded (Some (unbs "ADT_A17")) "PV1"]
  | Err _ => False
  end.
Proof. vm_compute. split; reflexivity. Qed.

(* a Z message: MSH + two standard segments + a Z segment is linked and validates (C04_z_message_built
   applies: ZDT_Z01 is not in the message table of v2.5) *)
Example C04_example_z_message :
  slookup (upper "ZDT_Z01") (t_messages T25) = None /\
  match build_message T25 TOLERANT e25 lenc25 (Some (unbs "ZDT_Z01"))
          [ShSeg (msh25 "ZDT^Z01"); ShSeg "EVN||20200101"; ShSeg "PID|||A||N"; ShSeg "ZIN|aa|bb"] with
  | Ok m => linked_message T25 TOLERANT e25 m = true /\ validate_message_errors T25 TOLERANT e25 m = Ok []
  | Err _ => False
  end.
Proof. vm_compute. split; [reflexivity|]. split; reflexivity. Qed.

(* ... without the required PID-3 and PID-5 of its PID segment the named errors of the SEGMENT level appear,
   and nothing is said about the message level (no segment is required) *)
Example C04_example_z_message_missing :
  match build_message T25 TOLERANT e25 lenc25 (Some (unbs "ZDT_Z01"))
          [ShSeg (msh25 "ZDT^Z01"); ShSeg "PID|1"; ShSeg "ZIN|aa|bb"] with
  | Ok m => validate_message_errors T25 TOLERANT e25 m =
              Ok [MissingRequired (Some (unbs "PID")) "PID_3"; MissingRequired (Some (unbs "PID")) "PID_5"]
  | Err _ => False
  end.
Proof. vm_compute. reflexivity. Qed.
