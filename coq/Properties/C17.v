(* C17 - Explicit arguments override process-wide defaults.
   In the model every entry point takes the configuration of process-wide defaults as an explicit
   argument and consults it exactly where the code consults get_default_* (an absent argument).
   The theorems say that with explicit arguments the result does not depend on the configuration,
   and that changing the defaults is a function on configurations that cannot touch an existing
   element.  The content of the property - that the CODE forwards its explicit arguments at every
   call site - is what the correspondence run checks: the model (which forwards by construction) is
   compared with hl7apy running under many non-default configurations (harness/c17.py). *)
From Coq Require Import List Bool NArith Init.Byte.
From HL7 Require Import Lib.Str Model.Ec Model.Result Model.Ref Model.Tree Model.Parser Model.Encode
     Model.Leaf Model.Config Gen.Params.
Import ListNotations.
Open Scope bs_scope.

Theorem C17_parse_segment_independent : forall c1 c2 text v e l reference,
  api_parse_segment c1 text (Some v) (Some e) (Some l) reference =
  api_parse_segment c2 text (Some v) (Some e) (Some l) reference.
Proof. reflexivity. Qed.
Print Assumptions C17_parse_segment_independent.

Theorem C17_parse_field_independent : forall c1 c2 text name v e l reference fv,
  api_parse_field c1 text name (Some v) (Some e) (Some l) reference fv =
  api_parse_field c2 text name (Some v) (Some e) (Some l) reference fv.
Proof. reflexivity. Qed.
Print Assumptions C17_parse_field_independent.

Theorem C17_parse_component_independent : forall c1 c2 text name dt v e l reference,
  api_parse_component c1 text name dt (Some v) (Some e) (Some l) reference =
  api_parse_component c2 text name dt (Some v) (Some e) (Some l) reference.
Proof. reflexivity. Qed.
Print Assumptions C17_parse_component_independent.

Theorem C17_to_er7_independent : forall c1 c2 v s e trailing,
  api_seg_to_er7 c1 v s (Some e) trailing = api_seg_to_er7 c2 v s (Some e) trailing.
Proof. reflexivity. Qed.
Print Assumptions C17_to_er7_independent.

(* what DOES depend on the configuration: an omitted argument (so the theorems above are not vacuous) *)
Theorem C17_omitted_argument_reads_default : exists c1 c2 text,
  api_parse_segment c1 text None None None None <> api_parse_segment c2 text None None None None.
Proof.
  exists (mk_cfg "2.5" TOLERANT default_ec default_ec_27),
         (mk_cfg "2.5" STRICT default_ec default_ec_27), ("PID|1~2" : bs).
  vm_compute. discriminate.
Qed.
Print Assumptions C17_omitted_argument_reads_default.

(* changing the defaults is a function on configurations: it returns a configuration and nothing
   else, so no existing tree can change; and it only changes the component it names *)
Theorem C17_set_default_level_only : forall c l,
  d_version (set_default_validation_level c l) = d_version c /\
  d_ec (set_default_validation_level c l) = d_ec c /\ d_ec27 (set_default_validation_level c l) = d_ec27 c.
Proof. intros; cbn; auto. Qed.
Print Assumptions C17_set_default_level_only.

Theorem C17_existing_element_unchanged : forall c c' v s e trailing,
  (* whatever sequence of set_default_* calls leads from c to c' *)
  api_seg_to_er7 c v s (Some e) trailing = api_seg_to_er7 c' v s (Some e) trailing.
Proof. reflexivity. Qed.
Print Assumptions C17_existing_element_unchanged.

(* ============================================================================================ *)
(* MESSAGE LEVEL: arguments DERIVED FROM THE MESSAGE TEXT (Model/ConfigMsg.v, Model/Message.v).
   parse_message(text, validation_level, find_groups) takes the version from MSH-12 and the delimiters
   from MSH-1/MSH-2; Model/Message.parse_message has the process default version as the parameter
   `dflt`, read exactly where Message(version=None) reads get_default_version().  The theorems below
   are about that model (no longer true "by construction"): with the level given and a header that
   states a version, the Message, its to_er7() and its validation report do not depend on ANY of the
   three defaults; without MSH-12 they do; and the delimiters the parsed message and all its
   elements encode with are those of the text.  Proofs: Proofs/ConfigMsgFacts.v. *)
From HL7 Require Import Model.Header Model.MsgTree Model.Message Model.ConfigMsg Model.LeafFull Gen.Tables.
From HL7 Require Import Proofs.MsgEcFacts Proofs.ConfigMsgFacts.
From HL7 Require Model.MsgEc Model.Validate Model.Datatypes Properties.C07.

(* (a) `header_states_supported_version text` is the decidable premise "MSH-12 of the text names one of
   the shipped versions" (header_version = first component of MSH-12 as get_message_info reads it) *)
Theorem C17_parse_message_independent : forall c1 c2 (text : str) l find_groups,
  header_states_supported_version text = true ->
  api_parse_message c1 text (Some l) find_groups = api_parse_message c2 text (Some l) find_groups /\
  api_parse_message_to_er7 c1 text (Some l) find_groups = api_parse_message_to_er7 c2 text (Some l) find_groups /\
  api_parse_message_validate c1 text (Some l) find_groups = api_parse_message_validate c2 text (Some l) find_groups.
Proof.
  intros c1 c2 text l fg H. unfold header_states_supported_version in H.
  destruct (header_version text) as [v|] eqn:Hv; [|discriminate].
  pose proof (api_parse_message_independent c1 c2 text l fg v Hv) as E.
  unfold api_parse_message_to_er7, api_parse_message_validate. cbn [get_level]. rewrite E.
  split; [reflexivity|]. split; reflexivity.
Qed.
Print Assumptions C17_parse_message_independent.

(* the same for ANY stated version and for the raw model function with two arbitrary default versions:
   the stated version is used as if it had been the default; an unsupported one is refused *)
Theorem C17_parse_message_independent_any_stated_version : forall d1 d2 (text : str) l find_groups v,
  header_version text = Some v ->
  parse_message tables_of d1 l find_groups text = parse_message tables_of d2 l find_groups text /\
  parse_message tables_of d1 l find_groups text = parse_message tables_of v l find_groups text /\
  (tables_of v = None -> parse_message tables_of d1 l find_groups text = Err (HL7 EUnsupportedVersion)).
Proof.
  intros d1 d2 text l fg v Hv. destruct (header_version_info text v Hv) as (e & st & Hi).
  split; [exact (parse_message_dflt_irrelevant tables_of _ _ l fg text e st v Hi)|].
  split; [exact (parse_message_dflt_irrelevant tables_of _ _ l fg text e st v Hi)|].
  intros Ht. exact (api_parse_message_unsupported (mk_cfg d1 l default_ec default_ec) text (Some l) fg v Hv Ht).
Qed.
Print Assumptions C17_parse_message_independent_any_stated_version.

(* the tables the message is parsed with are those of the stated version; of the default only without MSH-12 *)
Theorem C17_parse_message_version_source : forall c (text : str) l find_groups t m,
  api_parse_message c text l find_groups = Ok (t, m) ->
  t_version t = match header_version text with Some v => v | None => d_version c end.
Proof. intros c text l fg t m. exact (parse_message_version (d_version c) (get_level c l) fg text t m). Qed.
Print Assumptions C17_parse_message_version_source.

(* an omitted level is the default level of the configuration; the default delimiter sets are never read *)
Theorem C17_parse_message_reads_only_version_and_level : forall c e e27 (text : str) l find_groups,
  api_parse_message c text None find_groups = api_parse_message c text (Some (d_level c)) find_groups /\
  api_parse_message c text l find_groups =
  api_parse_message (mk_cfg (d_version c) (d_level c) e e27) text l find_groups.
Proof. intros; split; reflexivity. Qed.
Print Assumptions C17_parse_message_reads_only_version_and_level.

(* (b) the premise of (a) is needed: without MSH-12 the default version decides which tables are used *)
Theorem C17_parse_message_default_version_used : exists c1 c2 (text : str),
  header_version text = None /\
  d_level c1 = d_level c2 /\ d_ec c1 = d_ec c2 /\ d_ec27 c1 = d_ec27 c2 /\
  api_parse_message c1 text (Some TOLERANT) false <> api_parse_message c2 text (Some TOLERANT) false.
Proof.
  exists (mk_cfg "2.5" TOLERANT default_ec default_ec_27), (mk_cfg "2.3" TOLERANT default_ec default_ec_27),
         ("MSH|^~\&|A|B|C|D|20200101||ADT^A01|1|P" : bs).
  split; [vm_compute; reflexivity|]. repeat (split; [reflexivity|]).
  intros E.
  apply (f_equal (fun r => match r with Ok (t, _) => t_version t | Err _ => [] end)) in E.
  vm_compute in E. discriminate E.
Qed.
Print Assumptions C17_parse_message_default_version_used.

(* ... and an omitted level reads the default level *)
Theorem C17_parse_message_default_level_used : exists c1 c2 (text : str),
  header_states_supported_version text = true /\
  outcome_code (api_parse_message c1 text None false) <> outcome_code (api_parse_message c2 text None false).
Proof.
  exists (mk_cfg "2.5" TOLERANT default_ec default_ec_27), (mk_cfg "2.5" STRICT default_ec default_ec_27),
         (("MSH|^~\&|A|B|C|D|20200101||ADT^A01|1|P|2.5" ++ [CR] ++ "PID|1~2")%list : str).
  split; [vm_compute; reflexivity|]. vm_compute. discriminate.
Qed.
Print Assumptions C17_parse_message_default_level_used.

(* texts satisfying the premise of (a): the default and a custom delimiter set, v2.5 and v2.7 with a
   truncation character; and texts that do not (no MSH-12; an unknown version) *)
Example C17_example_header_versions :
  header_states_supported_version "MSH|^~\&|A|B|C|D|20200101||ADT^A01|1|P|2.5" = true /\
  header_version "MSH!@*%$!A!B!C!D!20200101!!ADT@A01!1!P!2.3.1@x" = Some ("2.3.1" : str) /\
  header_states_supported_version "MSH!@*%$!A!B!C!D!20200101!!ADT@A01!1!P!2.3.1@x" = true /\
  header_ec "MSH!@*%$#!A!B!C!D!20200101!!ADT@A01!1!P!2.7" = Some (mk_ec "!" "@" "*" "%" "$" (Some "#"%byte)) /\
  header_states_supported_version "  MSH|^~\&|A|B|C|D|20200101||ADT^A01|1|P| 2.8.2 " = true /\
  header_states_supported_version "MSH|^~\&|A|B|C|D|20200101||ADT^A01|1|P" = false /\
  header_states_supported_version "MSH|^~\&|A|B|C|D|20200101||ADT^A01|1|P|9.9" = false /\
  (* a message written with its own delimiters, parsed under hostile defaults: the same text comes back *)
  (let text : str := ("MSH!@*%$!A!B!C!D!20200101!!ADT@A01!1!P!2.5" ++ [CR] ++ "PID!1!!X@Y$Z*W")%list in
   let c := mk_cfg "2.3" STRICT (mk_ec "#" ":" ";" "?" "=" None) (mk_ec "#" ":" ";" "?" "=" None) in
   api_parse_message_to_er7 c text (Some TOLERANT) false = Ok text).
Proof. vm_compute. repeat split; reflexivity. Qed.

(* (c) the parsed message - and every element below it - encodes with the delimiters of the text:
   Message._get_encoding_chars gives the set spelled out by MSH-1/MSH-2 (TRUNCATION kept from v2.7 on:
   norm_ec, the vocabulary of C07), to_er7() encodes the children with exactly that set, and by
   C07_inherit every descendant element reads that set from its root, for ALL default sets. *)
Theorem C17_message_elements_encode_with_own_delimiters :
  forall c (text : str) l find_groups t m e,
  api_parse_message c text l find_groups = Ok (t, m) -> header_ec text = Some e ->
  message_ec (t_version t) m = Ok (norm_ec (t_version t) e) /\
  enc_message t (get_level c l) m =
    enc_children t (get_level c l) (norm_ec (t_version t) e) (m_st m) (m_children m) /\
  exists hm, msg_header_of (t_version t) m = Some hm /\
    forall dflt dflt27 kids el, In el (MsgEc.message_descendants hm kids) ->
      MsgEc.elem_encoding_chars dflt dflt27 el = Ok (MsgEc.ecd_of_ec (norm_ec (t_version t) e)).
Proof.
  intros c text l fg t m e H He. unfold header_ec, header_info in He.
  destruct (get_message_info (lstrip text)) as [[[e' st] ver]|] eqn:Hi; [|discriminate]. injection He as ->.
  unfold api_parse_message in H.
  pose proof (parse_message_msh_head _ _ _ _ _ _ _ _ _ H Hi) as Hh.
  split; [exact (parse_message_ec _ _ _ _ _ _ _ _ _ H Hi)|].
  split; [exact (parse_message_enc_own _ _ _ _ _ _ _ _ _ H Hi)|].
  destruct (msg_header_exact (t_version t) e m Hh) as (hm & E1 & _ & E2). exists hm. split; [exact E1|].
  intros dflt dflt27 kids el Hin. rewrite (Properties.C07.C07_inherit dflt dflt27 hm kids el Hin). exact E2.
Qed.
Print Assumptions C17_message_elements_encode_with_own_delimiters.

(* (d) datatype_factory(datatype, value, version, validation_level): explicit arguments are forwarded,
   an omitted level is the default LEVEL of the configuration, an omitted version its default version *)
Theorem C17_datatype_factory : forall c1 c2 dt e s v l,
  api_datatype_factory c1 dt e s (Some v) (Some l) = api_datatype_factory c2 dt e s (Some v) (Some l) /\
  (forall v', api_datatype_factory c1 dt e s v' None = api_datatype_factory c1 dt e s v' (Some (d_level c1)) /\
              api_datatype_factory c1 dt e s v' None =
                Datatypes.factory (match v' with Some x => x | None => d_version c1 end) (dlevel (d_level c1)) dt e s).
Proof. intros; split; [reflexivity|]. intros; split; reflexivity. Qed.
Print Assumptions C17_datatype_factory.

(* the level matters (so the defaulting above is observable): an invalid NM raises ValueError under a
   STRICT default and falls back to ST under a TOLERANT one *)
Theorem C17_datatype_factory_level_used : exists c1 c2 dt e s v,
  api_datatype_factory c1 dt e s (Some v) None <> api_datatype_factory c2 dt e s (Some v) None /\
  api_datatype_factory c1 dt e s (Some v) (Some TOLERANT) = api_datatype_factory c2 dt e s (Some v) (Some TOLERANT).
Proof.
  exists (mk_cfg "2.5" TOLERANT default_ec default_ec_27), (mk_cfg "2.5" STRICT default_ec default_ec_27),
         ("NM" : bs), default_ec, ("abc" : bs), ("2.5" : bs).
  split; [vm_compute; discriminate|reflexivity].
Qed.
Print Assumptions C17_datatype_factory_level_used.
