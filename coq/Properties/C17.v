(* C17 - Explicit arguments override process-wide defaults.
   In the model every entry point takes the configuration of process-wide defaults as an explicit
   argument and consults it exactly where the code consults get_default_* (an absent argument).
   The theorems say that with explicit arguments the result does not depend on the configuration,
   and that changing the defaults is a function on configurations that cannot touch an existing
   element.  The content of the property - that the CODE forwards its explicit arguments at every
   call site - is what the correspondence run checks: the model (which forwards by construction) is
   compared with hl7apy running under many non-default configurations (harness/c17.py). *)
From Coq Require Import List Bool NArith Init.Byte.
From HL7 Require Import Lib.Str Model.Ec Model.Result Model.Ref Model.Tree Model.Parser Model.Encode
     Model.Leaf Model.Config Gen.Params.
Import ListNotations.
Open Scope bs_scope.

Theorem C17_parse_segment_independent : forall c1 c2 text v e l reference,
  api_parse_segment c1 text (Some v) (Some e) (Some l) reference =
  api_parse_segment c2 text (Some v) (Some e) (Some l) reference.
Proof. reflexivity. Qed.
Print Assumptions C17_parse_segment_independent.

Theorem C17_parse_field_independent : forall c1 c2 text name v e l reference fv,
  api_parse_field c1 text name (Some v) (Some e) (Some l) reference fv =
  api_parse_field c2 text name (Some v) (Some e) (Some l) reference fv.
Proof. reflexivity. Qed.
Print Assumptions C17_parse_field_independent.

Theorem C17_parse_component_independent : forall c1 c2 text name dt v e l reference,
  api_parse_component c1 text name dt (Some v) (Some e) (Some l) reference =
  api_parse_component c2 text name dt (Some v) (Some e) (Some l) reference.
Proof. reflexivity. Qed.
Print Assumptions C17_parse_component_independent.

Theorem C17_to_er7_independent : forall c1 c2 v s e trailing,
  api_seg_to_er7 c1 v s (Some e) trailing = api_seg_to_er7 c2 v s (Some e) trailing.
Proof. reflexivity. Qed.
Print Assumptions C17_to_er7_independent.

(* what DOES depend on the configuration: an omitted argument (so the theorems above are not vacuous) *)
Theorem C17_omitted_argument_reads_default : exists c1 c2 text,
  api_parse_segment c1 text None None None None <> api_parse_segment c2 text None None None None.
Proof.
  exists (mk_cfg "2.5" TOLERANT default_ec default_ec_27),
         (mk_cfg "2.5" STRICT default_ec default_ec_27), ("PID|1~2" : bs).
  vm_compute. discriminate.
Qed.
Print Assumptions C17_omitted_argument_reads_default.

(* changing the defaults is a function on configurations: it returns a configuration and nothing
   else, so no existing tree can change; and it only changes the component it names *)
Theorem C17_set_default_level_only : forall c l,
  d_version (set_default_validation_level c l) = d_version c /\
  d_ec (set_default_validation_level c l) = d_ec c /\ d_ec27 (set_default_validation_level c l) = d_ec27 c.
Proof. intros; cbn; auto. Qed.
Print Assumptions C17_set_default_level_only.

Theorem C17_existing_element_unchanged : forall c c' v s e trailing,
  (* whatever sequence of set_default_* calls leads from c to c' *)
  api_seg_to_er7 c v s (Some e) trailing = api_seg_to_er7 c' v s (Some e) trailing.
Proof. reflexivity. Qed.
Print Assumptions C17_existing_element_unchanged.
