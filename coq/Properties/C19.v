(* C19 - Concurrent use gives the same results as sequential use.
   Theorems only; the model is Model/Sched.v (threads = lists of atomic actions over shared maps and
   thread-private maps, schedules = lists of thread ids), the proofs are in Proofs/SchedFacts.v.
   What is proved is the LOGIC that makes the property true of hl7apy: absence of writes to shared
   state.  What the model cannot exhibit (bytecode-level interleaving inside one action, the import
   lock, CPython dict internals) is observed by harness/c19.py, which also extracts the action list
   of datatype_factory from the running code and lets Coq compare it with `datatype_factory_prog`. *)
From Coq Require Import List Bool Arith ZArith Init.Byte.
From HL7 Require Import Lib.Str Model.Ec Model.Sched Proofs.SchedFacts Gen.Params.
Import ListNotations.
Open Scope bs_scope.

(* ---- non-interference: ALL thread states, ALL schedules (induction on the schedule) ---- *)

(* If no thread writes a shared map that another thread can reach, and every thread imports a
   library before using its maps, then under EVERY schedule every thread observes exactly what it
   observes when the same number of its steps is run alone. *)
Theorem C19_noninterference : forall (img : image) (S : store) (T : threads) (sched : list thread_id) (t : thread_id),
  no_shared_writes T = true -> imports_before_use img S T = true ->
  result_of t (run_schedule img S sched T) = result_of t (run_schedule img S (solo t sched) T).
Proof. intros. now apply noninterference. Qed.
Print Assumptions C19_noninterference.

(* ... for thread programs started from scratch and schedules that run every thread to its end:
   the results are those of the solo run to completion *)
Theorem C19_noninterference_complete : forall img S (progs : list (list action)) sched t,
  no_shared_writes (init_threads progs) = true ->
  imports_before_use img S (init_threads progs) = true ->
  complete progs sched = true ->
  result_of t (run_schedule img S sched (init_threads progs)) =
  result_of t (run_schedule img S (solo_complete t progs) (init_threads progs)).
Proof.
  intros img S progs sched t H1 H2 H3.
  rewrite (noninterference img S _ sched t H1 H2). now apply solo_complete_result.
Qed.
Print Assumptions C19_noninterference_complete.

(* ---- the code as it is satisfies the premises, for any number of threads / versions ---- *)

(* any number of concurrent datatype_factory calls (any version, any key set, any datatype, with or
   without the TOLERANT fallback): the only writes go to the per-call copy *)
Theorem C19_factory_ok : forall img S (calls : list (str * option str * list str * str * bool)),
  loaded S ("hl7apy" : str) = true ->
  (forall v l keys d fb, In (v, Some l, keys, d, fb) calls -> img l <> None) ->
  let T := init_threads (List.map (fun c => match c with (v, lib, keys, d, fb) =>
                                     datatype_factory_prog true v lib keys d fb end) calls) in
  no_shared_writes T = true /\ imports_before_use img S T = true.
Proof.
  intros img S calls H0 HI T.
  pose (cs := List.map (fun c : str * option str * list str * str * bool =>
                          match c with (v, lib, keys, d, fb) => CFactory v lib keys d fb end) calls).
  assert (E : T = init_threads (List.map prog_of cs)).
  { unfold T, cs. rewrite map_map. f_equal. apply map_ext. intros [[[[v lib] keys] d] fb]. reflexivity. }
  rewrite E. apply calls_ok; auto.
  intros c l Hc Hl. unfold cs in Hc. apply in_map_iff in Hc.
  destruct Hc as [[[[[v lib] keys] d] fb] [<- Hin]]. simpl in Hl.
  destruct lib as [l'|]; simpl in Hl; [|contradiction]. destruct Hl as [<-|[]]. eauto.
Qed.
Print Assumptions C19_factory_ok.

(* the same for any mix of the modelled calls: datatype_factory, load_library, readers of
   BASE_DATATYPES, Group.__init__ (per-instance child_classes), _escape_value (own highlights) *)
Theorem C19_calls_ok : forall img S (calls : list call),
  loaded S ("hl7apy" : str) = true ->
  (forall c l, In c calls -> In l (libs_of c) -> img l <> None) ->
  no_shared_writes (init_threads (List.map prog_of calls)) = true /\
  imports_before_use img S (init_threads (List.map prog_of calls)) = true.
Proof. intros. now apply calls_ok. Qed.
Print Assumptions C19_calls_ok.

(* hence: any mix of the modelled calls, any schedule that lets every call finish - every call
   returns what it returns when run alone *)
Theorem C19_hl7apy_calls_noninterference : forall img S (calls : list call) sched t,
  loaded S ("hl7apy" : str) = true ->
  (forall c l, In c calls -> In l (libs_of c) -> img l <> None) ->
  complete (List.map prog_of calls) sched = true ->
  result_of t (run_schedule img S sched (init_threads (List.map prog_of calls))) =
  result_of t (run_schedule img S (solo_complete t (List.map prog_of calls))
                            (init_threads (List.map prog_of calls))).
Proof.
  intros img S calls sched t H0 HI HC. destruct (calls_ok img S calls H0 HI) as [H1 H2].
  now apply C19_noninterference_complete.
Qed.
Print Assumptions C19_hl7apy_calls_noninterference.

(* ---- the generated tables give a library image on which the hypotheses hold ---- *)
Definition bdt_keys : list (str * list str) :=
  List.map (fun vr : str * list (str * dtkind * option Z) =>
              (fst vr, List.map (fun r : str * dtkind * option Z => fst (fst r)) (snd vr)))
           base_datatype_table.
Definition keys_of (v : str) : list str := match slookup v bdt_keys with Some k => k | None => [] end.
Definition img0 : image := hl7_image supported_versions bdt_keys.
Definition S0 : store := hl7_store img0.

(* every supported version has a library on disk and a BASE_DATATYPES table in Gen/Params.v *)
Theorem C19_image_covers_versions :
  forallb (fun v => match img0 (lib_of_version v) with Some _ => true | None => false end)
          supported_versions = true.
Proof. vm_compute. reflexivity. Qed.
Print Assumptions C19_image_covers_versions.

(* ---- the pre-1.3.5 shape (Alias in place of Copy) is refuted in the model ---- *)
Definition v25 : str := "2.5".
Definition l25 : str := lib_of_version v25.
(* thread 0: datatype_factory('DT', ..., '2.5') whose `factories` IS the shared BASE_DATATYPES;
   thread 1: any code that reads the class of DT of v2.5 (load_library('2.5').get_base_datatypes()['DT']) *)
Definition alias_threads : threads :=
  init_threads [datatype_factory_prog false v25 (Some l25) (keys_of v25) "DT" false;
                base_datatype_reader_prog v25 l25 "DT"].
(* thread 0 runs up to and including its write of factories['DT'], then thread 1 runs alone *)
Definition alias_schedule : list thread_id := repeat 0 7 ++ repeat 1 5.

Theorem C19_alias_refuted :
  no_shared_writes alias_threads = false /\
  result_of 1 (run_schedule img0 S0 alias_schedule alias_threads) <>
  result_of 1 (run_schedule img0 S0 (solo 1 alias_schedule) alias_threads) /\
  result_of 1 (run_schedule img0 S0 alias_schedule alias_threads) =
    [OHas true; OVal (Some l25); OLib l25 true; OHas true; OVal (Some ("date_factory" : str))] /\
  result_of 1 (run_schedule img0 S0 (solo 1 alias_schedule) alias_threads) =
    [OHas true; OVal (Some l25); OLib l25 true; OHas true; OVal (Some ("DT" : str))].
Proof.
  split; [vm_compute; reflexivity|]. split; [|split; vm_compute; reflexivity].
  intros H. vm_compute in H. discriminate.
Qed.
Print Assumptions C19_alias_refuted.

(* the same two threads with the code as it is (Copy): the premises hold and the schedule is harmless *)
Definition copy_threads : threads :=
  init_threads [datatype_factory_prog true v25 (Some l25) (keys_of v25) "DT" false;
                base_datatype_reader_prog v25 l25 "DT"].
Theorem C19_copy_same_schedule_ok :
  no_shared_writes copy_threads = true /\ imports_before_use img0 S0 copy_threads = true /\
  result_of 1 (run_schedule img0 S0 alias_schedule copy_threads) =
    [OHas true; OVal (Some l25); OLib l25 true; OHas true; OVal (Some ("DT" : str))].
Proof. vm_compute. auto. Qed.
Print Assumptions C19_copy_same_schedule_ok.

(* a class attribute mutated in Group.__init__ (instead of a per-instance map) violates premise 1,
   and with instances that register different classes a reader sees the other instance's class *)
Definition classattr_threads : threads :=
  init_threads [group_init_classattr_prog "Segment" "Group"; group_init_classattr_prog "MySegment" "MyGroup"].
Theorem C19_classattr_refuted :
  no_shared_writes classattr_threads = false /\
  result_of 0 (run_schedule (fun _ => None)
                 (mkStore (sh_set (fun _ _ => None) "hl7apy.core" "Group.child_classes" (Some [])) [])
                 [0; 0; 1; 1; 0; 0; 1; 1] classattr_threads) =
    [OVal (Some ("MySegment" : str)); OVal (Some ("MyGroup" : str))].
Proof. vm_compute. auto. Qed.
Print Assumptions C19_classattr_refuted.

(* ---- non-vacuity ---- *)
(* the hypotheses of C19_hl7apy_calls_noninterference are met by the generated image, and a concrete
   interleaving of five calls of three versions computes to the solo results *)
Definition example_calls : list call :=
  [CFactory "2.5" (Some (lib_of_version "2.5")) (keys_of "2.5") "DT" false;
   CFactory "2.7" (Some (lib_of_version "2.7")) (keys_of "2.7") "NM" true;
   CFactory "2.2" (Some (lib_of_version "2.2")) (keys_of "2.2") "DTM" false;
   CReader "2.5" (lib_of_version "2.5") "DT";
   CGroupInit;
   CEscape "[(3,4),(0,1)]" "[(0,1),(3,4)]";
   CFactory "9.9" None [] "ST" false].
Definition example_schedule : list thread_id :=
  flat_map (fun _ => [0; 1; 2; 3; 4; 5; 6; 2; 1; 0]) (seq 0 12).

Example C19_example_hypotheses :
  loaded S0 ("hl7apy" : str) = true /\
  forallb (fun c => forallb (fun l => match img0 l with Some _ => true | None => false end) (libs_of c))
          example_calls = true /\
  complete (List.map prog_of example_calls) example_schedule = true.
Proof. vm_compute. auto. Qed.

Example C19_example_run : forall t,
  result_of t (run_schedule img0 S0 example_schedule (init_threads (List.map prog_of example_calls))) =
  result_of t (run_schedule img0 S0 (solo_complete t (List.map prog_of example_calls))
                            (init_threads (List.map prog_of example_calls))).
Proof.
  intros t. destruct C19_example_hypotheses as [H0 [HI HC]].
  apply C19_hl7apy_calls_noninterference; auto.
  intros c l Hc Hl. rewrite forallb_forall in HI. specialize (HI c Hc).
  rewrite forallb_forall in HI. specialize (HI l Hl). destruct (img0 l); congruence.
Qed.

Example C19_example_result :
  result_of 1 (run_schedule img0 S0 example_schedule (init_threads (List.map prog_of example_calls))) =
  [OHas true; OVal (Some (lib_of_version "2.7")); OLib (lib_of_version "2.7") true;
   OHas true; OHas true; OHas true; OHas true; OHas true;
   OVal (Some ("numeric_factory" : str)); OVal (Some ("NM" : str)); OVal (Some ("ST" : str))].
Proof. vm_compute. reflexivity. Qed.
