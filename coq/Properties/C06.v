(* C06 - Escaping is delimiter-safe and idempotent for every delimiter set.
   Theorems only; proofs live in Proofs/EscapeFacts.v and Proofs/EscapeCover.v.  The escape
   parameters (translation lists, regex letter classes) are the generated Gen/Params.v, so every
   statement below is re-checked against what /repo's textual datatype classes do now. *)
From Coq Require Import List Bool NArith Init.Byte.
From HL7 Require Import Lib.Str Model.Ec Model.Escape Proofs.EscapeFacts Proofs.EscapeCover Gen.Params.
Import ListNotations.
Open Scope bs_scope.

(* ---- obligations on the generated parameters (finite, decided by the kernel) ---- *)

(* letter classes are letters, contain the letter used for a lone escape character, translation
   letters are letters, no translation rewrites the escape character, every probe had the shape
   (?<!E[L])E(?![L]E) *)
Theorem C06_params_letters_ok : forallb letters_ok esc_families = true.
Proof. vm_compute. reflexivity. Qed.

(* the four delimiters are translated by every family, with and without TRUNCATION *)
Theorem C06_params_cover : forallb covers esc_families = true.
Proof. vm_compute. reflexivity. Qed.

(* from v2.7 on every textual class also translates TRUNCATION *)
Definition family_of (k : dtkind) : option nat :=
  match k with KTextual f | KTN f => Some f | _ => None end.
Definition families_from_27_cover_trunc : bool :=
  forallb (fun vr : str * list (str * dtkind * option Z) =>
     if str_geb (fst vr) "2.7" then
       forallb (fun r : str * dtkind * option Z =>
                  match family_of (snd (fst r)) with
                  | Some f => match nth_error esc_families f with
                              | Some p => covers_trunc p | None => false end
                  | None => true
                  end) (snd vr)
     else true) base_datatype_table.
Theorem C06_params_trunc_from_27 : families_from_27_cover_trunc = true.
Proof. vm_compute. reflexivity. Qed.

(* the letters a translation inserts belong to both regex classes *)
Theorem C06_params_trans_letters :
  forallb (fun p => trans_letters_in_classes p) esc_families = true.
Proof. vm_compute. reflexivity. Qed.

(* the escape letters the property names are recognised: H N F S T R E everywhere, L from v2.7 *)
Definition spec_letters : str := "HNFSTRE".
Definition family_knows (l : str) (p : esc_params) : bool :=
  forallb (fun b => bmem b (letters_behind p) && bmem b (letters_ahead p)) l.
Theorem C06_params_spec_letters : forallb (family_knows spec_letters) esc_families = true.
Proof. vm_compute. reflexivity. Qed.
Theorem C06_params_spec_letter_L :
  forallb (fun p => negb (covers_trunc p) || family_knows "L" p) esc_families = true.
Proof. vm_compute. reflexivity. Qed.

(* ---- general theorems: every string, every valid delimiter set, every family ---- *)

Lemma family_ok p : In p esc_families -> letters_ok p = true.
Proof. intros H. exact (forallb_In _ _ _ C06_params_letters_ok H). Qed.

(* no field, component, subcomponent or repetition character survives escaping *)
Theorem C06_no_delimiters : forall p e s d,
  In p esc_families -> ec_valid p e = true ->
  In d [fsep e; csep e; ssep e; rsep e] -> bmem d (escape p e s) = false.
Proof.
  intros p e s d Hp He Hd. apply escape_no_delims; auto using family_ok.
  assert (C : covers p = true) by exact (forallb_In _ _ _ C06_params_cover Hp).
  simpl in Hd. destruct Hd as [<-|[<-|[<-|[<-|[]]]]].
  - apply covers_four with (s := FIELD); simpl; auto.
  - apply covers_four with (s := COMPONENT); simpl; auto.
  - apply covers_four with (s := SUBCOMPONENT); simpl; auto 6.
  - apply covers_four with (s := REPETITION); simpl; auto 6.
Qed.
Print Assumptions C06_params_spec_letter_L.
Print Assumptions C06_params_spec_letters.
Print Assumptions C06_params_trans_letters.
Print Assumptions C06_params_trunc_from_27.
Print Assumptions C06_params_cover.
Print Assumptions C06_params_letters_ok.
Print Assumptions C06_no_delimiters.

(* ... nor the truncation character, for the families that translate it (all classes from v2.7) *)
Theorem C06_no_truncation : forall p e s t,
  In p esc_families -> covers_trunc p = true -> ec_valid p e = true -> tsep e = Some t ->
  bmem t (escape p e s) = false.
Proof.
  intros p e s t Hp Hc He Ht. apply escape_no_delims; auto using family_ok.
  now apply covers_truncation.
Qed.
Print Assumptions C06_no_truncation.

(* hence a value can never change the number of fields / components / subcomponents / repetitions *)
Theorem C06_counts : forall p e s d,
  In p esc_families -> ec_valid p e = true ->
  In d [fsep e; csep e; ssep e; rsep e] -> count_occ_b beqb d (escape p e s) = 0.
Proof.
  intros p e s d Hp He Hd. pose proof (C06_no_delimiters p e s d Hp He Hd) as H.
  induction (escape p e s) as [|x r IH]; [reflexivity|].
  rewrite bmem_cons in H. apply orb_false_elim in H. destruct H as [Hx Hr].
  cbn [count_occ_b]. rewrite Hx. now rewrite IH.
Qed.
Print Assumptions C06_counts.

(* idempotence: already escaped text is emitted unchanged *)
Theorem C06_idempotent : forall p e s,
  In p esc_families -> ec_valid p e = true -> escape p e (escape p e s) = escape p e s.
Proof. intros p e s Hp He. apply escape_idempotent; auto using family_ok. Qed.
Print Assumptions C06_idempotent.

(* text consisting of ordinary characters and well-formed escape sequences is a fixed point *)
Theorem C06_escaped_text_unchanged : forall p e s,
  In p esc_families -> ec_valid p e = true ->
  tok p e s = true -> (forall d, In d (escaped_delims p e) -> bmem d s = false) ->
  escape p e s = s.
Proof. intros p e s Hp He. apply escape_tokenised_id; auto using family_ok. Qed.
Print Assumptions C06_escaped_text_unchanged.

(* "every escape character in the output belongs to an escape sequence": full statement *)
Definition C06_sequences_statement : Prop := forall p e s,
  In p esc_families -> ec_valid p e = true ->
  esc_tokens_ok (esc e) (fun b => in_letters (letters_behind p) b && in_letters (letters_ahead p) b)
                (escape p e s) = true.

(* ... refuted on the faithful model (finding F4): \H| becomes \H\F\ *)
Theorem C06_sequences_refuted : ~ C06_sequences_statement.
Proof.
  intros H. specialize (H esc_family_0 default_ec ("\H|" : bs)).
  assert (In esc_family_0 esc_families) as Hin by (simpl; auto).
  specialize (H Hin eq_refl). vm_compute in H. discriminate.
Qed.
Print Assumptions C06_sequences_refuted.

(* ... and what does hold: input without escape characters gives a well-tokenised output *)
Theorem C06_sequences_partial : forall p e s,
  In p esc_families -> ec_valid p e = true -> bmem (esc e) s = false ->
  esc_tokens_ok (esc e) (fun b => in_letters (letters_behind p) b && in_letters (letters_ahead p) b)
                (escape p e s) = true.
Proof.
  intros p e s Hp He Hs. apply tokenised_tokens_ok.
  apply escape_tokens_partial; auto using family_ok.
  exact (forallb_In _ _ _ C06_params_trans_letters Hp).
Qed.
Print Assumptions C06_sequences_partial.

(* ---- non-vacuity: the hypotheses are met by the shipped defaults ---- *)
Example C06_defaults_valid :
  ec_valid esc_family_0 default_ec = true /\ ec_valid esc_family_0 default_ec_27 = true /\
  forallb (fun p => ec_valid p default_ec_27) esc_families = true.
Proof. vm_compute. auto. Qed.
Example C06_example : escape esc_family_0 default_ec ("a|b^c\d" : bs) = ("a\F\b\S\c\E\d" : bs).
Proof. vm_compute. reflexivity. Qed.
