(* Table obligation for HL7 v2.3: every segment definition, datatype struct and field row of the
   regenerated tables is well formed (Model/Wf.v report_ok), the only exception being the structure
   wildcard ANYHL7SEGMENT, which is not a segment.  Finite, completely enumerated by the kernel. *)
From Coq Require Import List Bool Init.Byte.
From HL7 Require Import Lib.Str Model.Ref Model.Wf.
From HL7 Require Gen.Tables_v2_3.
Import ListNotations. Open Scope bs_scope.

Theorem tables_wf_v2_3 : report_ok Gen.Tables_v2_3.tables = true.
Proof. vm_compute. reflexivity. Qed.

Theorem translator_saw_only_wildcard_rows_v2_3 :
  (* objects of unexpected shape met by the translator in the segment-level tables = the rows of
     the ANYHL7SEGMENT wildcard *)
  Gen.Tables_v2_3.n_bad_seg_level =
  match slookup "ANYHL7SEGMENT" (t_segments Gen.Tables_v2_3.tables) with
  | Some (SSeqIn _ rows _) => length rows
  | _ => 0 end.
Proof. vm_compute. reflexivity. Qed.
