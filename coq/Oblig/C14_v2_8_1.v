(* C14 obligation for HL7 v2.8.1, decided by complete enumeration inside the kernel (vm_compute):
   - every field row of every segment is reached by its HL7 name and, unless exempt, by its long name
     (seg_getattr on the Segment the library builds), and neither spelling is an attribute name;
   - likewise every component row of every complex datatype under a field of that datatype, and every
     subcomponent row under every component parent (DATATYPES entry);
   - child keys are the entries' own names, upper case and pairwise distinct; field parents are
     <SEG>_<i> in upper case with a leaf reference or the components of a complex datatype; no
     DATATYPES key or long name has the shape of a positional path of a field (premise of C14_positional);
   - ANYHL7SEGMENT (a structure wildcard, not a segment) is skipped.
   Letter case and positional paths are covered for all inputs by C14_case / C14_positional.
   The tallies are PINNED: rows, long names checked, exempt (shared long name / long name equal to a
   child name / long name equal to an attribute name of the class), rows without long name -- at the
   three levels -- then the parent counts and a digest of the alias map (child name -> long name).
   A table change that alters an exemption or an alias breaks this file; after an INTENDED table
   change re-pin with  /venv/bin/python harness/c14.py --repin *)
From Coq Require Import List Bool NArith Init.Byte.
From HL7 Require Import Lib.Str Model.Ref Model.Tree Model.Resolve.
From HL7 Require Gen.Tables_v2_8_1.
Import ListNotations. Open Scope N_scope.

Definition rep_v2_8_1 : c14_report := report Gen.Tables_v2_8_1.tables TOLERANT.

Theorem C14_tables_v2_8_1 :
  summary rep_v2_8_1 =
  (true,
   [2658; 2647; 9; 0; 2; 0],     (* field rows of segments *)
   [444; 436; 6; 0; 2; 0],     (* component rows of complex datatypes *)
   [1239; 1233; 6; 0; 0; 0],     (* subcomponent rows of component parents *)
   [180; 70; 444; 2661],     (* segments, complex datatypes, component parents, field parents *)
   208836131).
Proof. vm_cast_no_check (eq_refl (summary rep_v2_8_1)). Qed.

(* projections of the pinned summary (generic in the report, so nothing is recomputed) *)
Local Lemma summary_fine r x : summary r = x -> report_fine r = fst (fst (fst (fst (fst x)))).
Proof. intros <-. reflexivity. Qed.
Local Lemma summary_exempt r x : summary r = x ->
  exempt_rows r = (exempt_of (snd (fst (fst (fst (fst x))))), exempt_of (snd (fst (fst (fst x)))),
                   exempt_of (snd (fst (fst x)))).
Proof. intros <-. reflexivity. Qed.

Theorem C14_fine_v2_8_1 : report_fine rep_v2_8_1 = true.
Proof. exact (summary_fine _ _ C14_tables_v2_8_1). Qed.

(* rows whose long name is NOT claimed to address them: (fields of segments, components of datatypes,
   subcomponents of components) *)
Theorem C14_exempt_rows_v2_8_1 : exempt_rows rep_v2_8_1 = (11, 8, 6).
Proof. exact (summary_exempt _ _ C14_tables_v2_8_1). Qed.
