(* All supported versions' tables are well formed: conjunction of the per-version obligations. *)
From Coq Require Import List Bool Init.Byte.
From HL7 Require Import Lib.Str Model.Ref Model.Wf Gen.Tables.
From HL7 Require Oblig.Wf_v2_1.
From HL7 Require Oblig.Wf_v2_2.
From HL7 Require Oblig.Wf_v2_3.
From HL7 Require Oblig.Wf_v2_3_1.
From HL7 Require Oblig.Wf_v2_4.
From HL7 Require Oblig.Wf_v2_5.
From HL7 Require Oblig.Wf_v2_5_1.
From HL7 Require Oblig.Wf_v2_6.
From HL7 Require Oblig.Wf_v2_7.
From HL7 Require Oblig.Wf_v2_8.
From HL7 Require Oblig.Wf_v2_8_1.
From HL7 Require Oblig.Wf_v2_8_2.
Import ListNotations. Open Scope bs_scope.

Theorem all_tables_wf : forallb (fun p => report_ok (snd p)) all_tables = true.
Proof.
  unfold all_tables. cbn [forallb snd].
  rewrite Oblig.Wf_v2_1.tables_wf_v2_1. rewrite Oblig.Wf_v2_2.tables_wf_v2_2. rewrite Oblig.Wf_v2_3.tables_wf_v2_3. rewrite Oblig.Wf_v2_3_1.tables_wf_v2_3_1. rewrite Oblig.Wf_v2_4.tables_wf_v2_4. rewrite Oblig.Wf_v2_5.tables_wf_v2_5. rewrite Oblig.Wf_v2_5_1.tables_wf_v2_5_1. rewrite Oblig.Wf_v2_6.tables_wf_v2_6. rewrite Oblig.Wf_v2_7.tables_wf_v2_7. rewrite Oblig.Wf_v2_8.tables_wf_v2_8. rewrite Oblig.Wf_v2_8_1.tables_wf_v2_8_1. rewrite Oblig.Wf_v2_8_2.tables_wf_v2_8_2.
  reflexivity.
Qed.

Lemma tables_of_wf v t : tables_of v = Some t -> report_ok t = true.
Proof.
  unfold tables_of. intros H.
  assert (G : forall l, forallb (fun p : str * tables => report_ok (snd p)) l = true ->
              slookup v l = Some t -> report_ok t = true).
  { induction l as [|[k x] l IH]; cbn; [discriminate|].
    intros Hl. apply andb_prop in Hl. destruct Hl as [Hx Hl].
    destruct (leqb beqb v k); [intros E; injection E as <-; exact Hx | now apply IH]. }
  exact (G _ all_tables_wf H).
Qed.
