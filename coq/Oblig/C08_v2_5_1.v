(* C08, finite clause for HL7 v2.5.1, completely enumerated by the kernel: for every message structure
   of the regenerated tables whose segment names occur at a single place (no ANYHL7SEGMENT
   wildcard) and every instance family (required-only, all-children, every repeatable group twice
   down to nesting depth 3) the search `find_groups_names` returns exactly the prescribed forest
   with every segment placed.  The structures for which this fails are the explicit list on the
   right-hand side: a new failing structure, or a listed one that starts to pass, breaks the theorem.
   (no failing structure in this version) *)
From Coq Require Import List Bool Init.Byte.
From HL7 Require Import Lib.Str Model.Result Model.Ref Model.Groups Proofs.GroupsFacts Proofs.GroupsMirror.
From HL7 Require Gen.Tables_v2_5_1.
Import ListNotations. Open Scope bs_scope.

Theorem C08_prescribed_v2_5_1 : failing_structures Gen.Tables_v2_5_1.tables = [].
Proof. vm_compute. reflexivity. Qed.

(* the sweep is not vacuous: number of structures it covers / number of message structures *)
Theorem C08_prescribed_domain_v2_5_1 :
  (Nat.eqb (length (filter (fun p => unique_places Gen.Tables_v2_5_1.tables (snd p)) (t_messages Gen.Tables_v2_5_1.tables))) 0) = false.
Proof. vm_compute. reflexivity. Qed.

(* table hypothesis of C08_sound for every message structure of this version: every group row is
   written by name with an upper-case name, all the way down (nesting depth < 12) *)
Theorem C08_tables_v2_5_1 :
  forallb (fun p => tab_ok Gen.Tables_v2_5_1.tables 12 (snd p)) (t_messages Gen.Tables_v2_5_1.tables) = true.
Proof. vm_compute. reflexivity. Qed.

(* second table hypothesis (C08_unplaced): group names are pairwise distinct along every path *)
Theorem C08_distinct_v2_5_1 :
  forallb (fun p => names_distinct Gen.Tables_v2_5_1.tables 12 [] (snd p)) (t_messages Gen.Tables_v2_5_1.tables) = true.
Proof. vm_compute. reflexivity. Qed.
