(* Byte strings and the Python str operations the hl7apy model needs.
   Definitions only (plus the reflection lemmas that everything else uses);
   the algebra (split/join inverses, ...) is in Proofs/StrFacts.v. *)
From Coq Require Import List Bool Arith NArith ZArith Lia Init.Byte Strings.Byte.
Import ListNotations.

(* ---------- literals ---------- *)
Inductive bs := BS (l : list byte).
Definition unbs (b : bs) : list byte := match b with BS l => l end.
Declare Scope bs_scope.
Delimit Scope bs_scope with bs.
String Notation bs BS unbs : bs_scope.
Definition str := list byte.
Coercion unbs : bs >-> list.

(* ---------- generic list-of-characters operations ---------- *)
Section Generic.
Variable A : Type.
Variable eqb : A -> A -> bool.

Fixpoint leqb (x y : list A) : bool :=
  match x, y with
  | [], [] => true
  | a :: x', b :: y' => eqb a b && leqb x' y'
  | _, _ => false
  end.

(* Python str.split(c) for a one-character separator: never returns [] *)
Fixpoint split_aux (c : A) (cur : list A) (s : list A) : list (list A) :=
  match s with
  | [] => [rev cur]
  | x :: r => if eqb x c then rev cur :: split_aux c [] r else split_aux c (x :: cur) r
  end.
Definition split (c : A) (s : list A) := split_aux c [] s.

(* sep.join(l) for a one-character separator *)
Fixpoint join (c : A) (l : list (list A)) : list A :=
  match l with
  | [] => []
  | [x] => x
  | x :: r => x ++ c :: join c r
  end.

(* sep.join(l) for a string separator *)
Fixpoint joins (sep : list A) (l : list (list A)) : list A :=
  match l with
  | [] => []
  | [x] => x
  | x :: r => x ++ sep ++ joins sep r
  end.

Definition nosep (c : A) (x : list A) := forallb (fun y => negb (eqb y c)) x.
Definition mem (c : A) (x : list A) := existsb (fun y => eqb y c) x.

(* s.replace(c, rep) for a one-character pattern *)
Fixpoint replace1 (c : A) (rep : list A) (s : list A) : list A :=
  match s with
  | [] => []
  | x :: r => (if eqb x c then rep else [x]) ++ replace1 c rep r
  end.

Fixpoint starts_with (p s : list A) : bool :=
  match p, s with
  | [], _ => true
  | a :: p', b :: s' => eqb a b && starts_with p' s'
  | _ :: _, [] => false
  end.

Fixpoint lstrip_by (p : A -> bool) (s : list A) : list A :=
  match s with
  | [] => []
  | x :: r => if p x then lstrip_by p r else s
  end.
Definition rstrip_by (p : A -> bool) (s : list A) := rev (lstrip_by p (rev s)).
Definition strip_by (p : A -> bool) (s : list A) := rstrip_by p (lstrip_by p s).

Fixpoint count_occ_b (c : A) (s : list A) : nat :=
  match s with [] => 0 | x :: r => (if eqb x c then 1 else 0) + count_occ_b c r end.

(* no duplicates, boolean *)
Fixpoint nodupb (l : list A) : bool :=
  match l with [] => true | x :: r => negb (mem x r) && nodupb r end.

(* association lists keyed by strings of A *)
Fixpoint alookup {B} (k : list A) (l : list (list A * B)) : option B :=
  match l with
  | [] => None
  | (k', v) :: r => if leqb k k' then Some v else alookup k r
  end.

End Generic.

Arguments leqb {A}. Arguments split_aux {A}. Arguments split {A}. Arguments join {A}.
Arguments joins {A}. Arguments nosep {A}. Arguments mem {A}. Arguments replace1 {A}.
Arguments starts_with {A}. Arguments lstrip_by {A}. Arguments rstrip_by {A}. Arguments strip_by {A}.
Arguments count_occ_b {A}. Arguments nodupb {A}. Arguments alookup {A} eqb {B}.

(* hl7apy.core._remove_trailing: drop the trailing elements satisfying p ("falsy") *)
Definition remove_trailing {B} (p : B -> bool) (l : list B) : list B := rev (lstrip_by p (rev l)).

(* ---------- bytes ---------- *)
Definition beqb : byte -> byte -> bool := Byte.eqb.
Lemma beqb_spec x y : reflect (x = y) (beqb x y).
Proof.
  unfold beqb. destruct (Byte.eqb x y) eqn:E; constructor.
  - now apply Byte.byte_dec_bl.
  - now apply Byte.eqb_false.
Qed.
Lemma beqb_refl x : beqb x x = true.
Proof. destruct (beqb_spec x x); congruence. Qed.

Definition streqb : str -> str -> bool := leqb beqb.
Lemma streqb_spec x y : reflect (x = y) (streqb x y).
Proof.
  unfold streqb. revert y; induction x as [|a x IH]; intros [|b y]; simpl; try (constructor; congruence).
  destruct (beqb_spec a b) as [->|N]; simpl.
  - destruct (IH y) as [->|N]; constructor; congruence.
  - constructor; congruence.
Qed.
Lemma streqb_refl x : streqb x x = true.
Proof. destruct (streqb_spec x x); congruence. Qed.
Lemma streqb_eq x y : streqb x y = true -> x = y.
Proof. destruct (streqb_spec x y); congruence. Qed.

Definition bsplit := split beqb.
Definition bjoin := @join byte.
Definition bjoins := @joins byte.
Definition breplace1 := replace1 beqb.
Definition bmem := mem beqb.
Definition bstarts := starts_with beqb.
Definition slookup {B} := @alookup byte beqb B.
Definition smem (k : str) (l : list str) : bool := existsb (streqb k) l.

Definition code (b : byte) : N := Byte.to_N b.
Definition between (lo hi : N) (b : byte) : bool := (N.leb lo (code b)) && (N.leb (code b) hi).
Definition is_digit := between 48 57.
Definition is_upper := between 65 90.
Definition is_lower := between 97 122.
Definition is_alpha (b : byte) := is_upper b || is_lower b.
Definition is_alnum (b : byte) := is_alpha b || is_digit b.
(* Python str.isspace restricted to ASCII: \t \n \v \f \r, FS GS RS US, space *)
Definition is_space (b : byte) := between 9 13 b || between 28 32 b.
Definition is_ascii (b : byte) := N.leb (code b) 127.

Definition bupper (b : byte) : byte :=
  if is_lower b then match Byte.of_N (code b - 32) with Some c => c | None => b end else b.
Definition blower (b : byte) : byte :=
  if is_upper b then match Byte.of_N (code b + 32) with Some c => c | None => b end else b.
Definition upper (s : str) : str := map bupper s.
Definition lower (s : str) : str := map blower s.

Definition strip (s : str) : str := strip_by is_space s.
Definition lstrip (s : str) : str := lstrip_by is_space s.
Definition CR : byte := x0d.
Definition strip_cr (s : str) : str := strip_by (fun b => beqb b CR) s.
Definition is_blank (s : str) : bool := match strip s with [] => true | _ => false end.

(* ---------- numbers ---------- *)
Definition digit_val (b : byte) : N := code b - 48.
Definition digit_of (n : N) : byte := match Byte.of_N (48 + n) with Some c => c | None => x30 end.

(* all-digit, non-empty strings as numbers (Python int() on such strings) *)
Definition all_digits (s : str) : bool := match s with [] => false | _ => forallb is_digit s end.
Definition digits_val (s : str) : N := fold_left (fun acc b => (acc * 10 + digit_val b)%N) s 0%N.
Definition parse_N (s : str) : option N := if all_digits s then Some (digits_val s) else None.

(* str(n) for n : N, by fuelled division (fuel = number of binary digits suffices) *)
Fixpoint N_to_str_aux (fuel : nat) (n : N) (acc : str) : str :=
  match fuel with
  | O => acc
  | S f => let acc' := digit_of (n mod 10) :: acc in
           if (n / 10 =? 0)%N then acc' else N_to_str_aux f (n / 10) acc'
  end.
Definition N_to_str (n : N) : str := N_to_str_aux (S (N.to_nat (N.log2 n))) n [].
Definition nat_to_str (n : nat) : str := N_to_str (N.of_nat n).

(* slicing *)
Definition take := @firstn byte.
Definition drop := @skipn byte.
Definition slen (s : str) : nat := length s.

(* Python's str comparison on byte strings (lexicographic by code point) *)
Fixpoint str_leb (x y : str) : bool :=
  match x, y with
  | [], _ => true
  | _ :: _, [] => false
  | a :: x', b :: y' => if N.ltb (code a) (code b) then true
                        else if N.ltb (code b) (code a) then false else str_leb x' y'
  end.
Definition str_geb (x y : str) : bool := str_leb y x.
