# usage: python diff_groups.py <seed>  -- reading_group_search vs hl7apy on every message structure
import sys, random, collections
from gen_common import *
from hl7apy.parser import parse_message
from reading_group_search import find_groups, dump

if __name__ == '__main__':
    rnd = random.Random(int(sys.argv[1])); st = collections.Counter(); ex = {}
    for v in VERSIONS:
        lib = hl7apy.load_library(v)
        pool = [n for n in lib.SEGMENTS if okseg(lib, n) and n != 'MSH'] + ['ZZZ']
        for mname, ref in lib.MESSAGES.items():
            if ref[0] != 'sequence': continue
            for mode in ('req', 'all', 'rep2', 'rand', 'rand'):
                try:
                    if mode == 'rand':
                        base = instance_names(ref, 'all')
                        names = ['MSH'] + [rnd.choice(base[1:] or ['PID']) if rnd.random() < .8 else rnd.choice(pool) for _ in range(rnd.randint(1, 12))]
                    else: names = instance_names(ref, mode)
                except Exception: st['genfail'] += 1; continue
                if not names or names[0] != 'MSH' or any(not (okseg(lib, n) or n == 'ZZZ') for n in names): st['skip'] += 1; continue
                t = '\r'.join(msh_line(mname, v) if s == 'MSH' else s + '|1' for s in names)
                try: got = impl_tree(parse_message(t))
                except Exception as e: got = ('EXC', type(e).__name__)
                try: want = dump(find_groups(names, ref))
                except Exception as e: want = ('EXC', type(e).__name__)
                if got == want: st[('agree', mode)] += 1
                else: st[('DISAGREE', mode)] += 1; ex.setdefault(mname, (v, names))
    for k in sorted(st, key=str): print(k, st[k])
    print('structures with a disagreement:', sorted(ex))
