# Pure functional reading of parser.parse_segments(find_groups=True) + _get_segment_reference
# forest node: ('S', name) or ['G', name, ref, children(list)]  (mutable list to mimic append on spine)
def get_seg_ref(name, stack):
    """stack: list of (gname, ref). returns (ref or None, new_stack) ; mirrors _get_segment_reference incl. mutation of stack"""
    p_ref = stack[-1][1]
    groups=[]
    for c in p_ref[1]:
        if c[3]=='SEG' and c[0]==name:
            return c[1], stack
        elif c[3]=='GRP':
            groups.append(c)
    for g in groups:
        stack = stack + [(g[0], g[1])]
        ref, stack = get_seg_ref(name, stack)
        if ref is not None:
            return ref, stack
        stack = stack[:-1]
    return None, stack

def find_groups(names, references):
    """returns forest (list) ; nodes are dicts for groups"""
    forest=[]
    stack=[(None, references)]
    cur=[]          # path of group nodes (current_parent chain); empty = None
    for name in names:
        n=len(stack)
        for x in range(n):
            ref, stack = get_seg_ref(name, stack)
            if ref is None:
                if cur:
                    stack = stack[:-1]
                    cur = cur[:-1]
            else:
                top = stack[-1][0]
                if (not cur and top is not None) or (cur and top != cur[-1]['name']):
                    if cur:
                        key=(cur[-1]['name'], cur[-1]['ref'])
                        # parents_refs.index((name, reference)) -> first equal element
                        cur_idx=[i for i,e in enumerate(stack) if e[0]==key[0] and e[1]==key[1]][0]
                    else:
                        cur_idx=[i for i,e in enumerate(stack) if e[0] is None and e[1]==references][0]
                    for p in stack[cur_idx+1:]:
                        g={'name':p[0],'ref':p[1],'children':[]}
                        (cur[-1]['children'] if cur else forest).append(g)
                        cur = cur+[g]
                elif cur and name in [c if isinstance(c,str) else c['name'] for c in cur[-1]['children']] and reps(cur[-1]['ref'])[name][1]==1:
                    g={'name':cur[-1]['name'],'ref':cur[-1]['ref'],'children':[]}
                    (cur[-2]['children'] if len(cur)>1 else forest).append(g)
                    cur = cur[:-1]+[g]
                (cur[-1]['children'] if cur else forest).append(name)
                break
    return forest
import collections
def reps(ref):
    # ElementFinder._parse_structure naming of duplicates
    r={}; cnt=collections.defaultdict(int)
    for c in ref[1]:
        k=c[0] if c[0] not in r else '%s_%d'%(c[0],cnt[c[0]])
        r[k]=c[2]; cnt[c[0]]+=1
    return r
def dump(forest):
    return [c if isinstance(c,str) else (c['name'], dump(c['children'])) for c in forest]
