(* Feasibility prototype: the core of the C10 invariant on a function heap. Stdlib only. *)
From Coq Require Import List Arith Bool Lia.
Import ListNotations.

Record node := { parent : option nat; nm : nat; lst : list nat; idx : nat -> list nat }.
Definition heap := nat -> node.
Definition upd (h : heap) (i : nat) (n : node) : heap := fun j => if Nat.eqb j i then n else h j.

Lemma upd_same h i n : upd h i n i = n.
Proof. unfold upd. now rewrite Nat.eqb_refl. Qed.
Lemma upd_other h i n j : j <> i -> upd h i n j = h j.
Proof. unfold upd. intros H. destruct (Nat.eqb_spec j i); congruence. Qed.

Definition by_name (h : heap) (k : nat) (l : list nat) := filter (fun c => Nat.eqb (nm (h c)) k) l.

(* primitives *)
Definition set_parent_ptr (h : heap) (c p : nat) : heap :=
  upd h c {| parent := Some p; nm := nm (h c); lst := lst (h c); idx := idx (h c) |}.
Definition list_append (h : heap) (p c : nat) : heap :=
  let k := nm (h c) in
  upd h p {| parent := parent (h p); nm := nm (h p); lst := lst (h p) ++ [c];
             idx := fun k' => if Nat.eqb k' k then idx (h p) k' ++ [c] else idx (h p) k' |}.
Definition list_remove (h : heap) (p c : nat) : heap :=
  let k := nm (h c) in
  upd h p {| parent := parent (h p); nm := nm (h p); lst := remove Nat.eq_dec c (lst (h p));
             idx := fun k' => if Nat.eqb k' k then remove Nat.eq_dec c (idx (h p) k') else idx (h p) k' |}.

Definition listed (h : heap) (c : nat) := exists q, In c (lst (h q)).

Record Inv (h : heap) : Prop := {
  I1 : forall p c, In c (lst (h p)) -> parent (h c) = Some p;
  I2 : forall p, NoDup (lst (h p));
  I3 : forall p k, idx (h p) k = by_name h k (lst (h p)) }.

(* attach = what `p.add(c)` does for a child that is not listed anywhere *)
Definition attach (h : heap) (p c : nat) : heap := list_append (set_parent_ptr h c p) p c.

Lemma by_name_ext h h' k l : (forall c, In c l -> nm (h' c) = nm (h c)) -> by_name h' k l = by_name h k l.
Proof. intros H. unfold by_name. apply filter_ext_in. intros c Hc. now rewrite H. Qed.

Lemma nm_set_parent_ptr h c p x : nm (set_parent_ptr h c p x) = nm (h x).
Proof. unfold set_parent_ptr, upd. destruct (Nat.eqb x c) eqn:E; auto. apply Nat.eqb_eq in E. now subst. Qed.
Lemma lst_set_parent_ptr h c p x : lst (set_parent_ptr h c p x) = lst (h x).
Proof. unfold set_parent_ptr, upd. destruct (Nat.eqb x c) eqn:E; auto. apply Nat.eqb_eq in E. now subst. Qed.
Lemma idx_set_parent_ptr h c p x : idx (set_parent_ptr h c p x) = idx (h x).
Proof. unfold set_parent_ptr, upd. destruct (Nat.eqb x c) eqn:E; auto. apply Nat.eqb_eq in E. now subst. Qed.

Lemma NoDup_snoc (l : list nat) c : NoDup l -> ~ In c l -> NoDup (l ++ [c]).
Proof.
  induction l as [|a l IH]; cbn; intros D N.
  - constructor; [intros []|constructor].
  - apply NoDup_cons_iff in D. destruct D as [Da Dl]. constructor.
    + intro Hin. apply in_app_or in Hin. destruct Hin as [Hin|Hin]; [contradiction|].
      destruct Hin as [Hin|[]]. apply N. left. symmetry. exact Hin.
    + apply IH; auto.
Qed.

Lemma by_name_app h k l1 l2 : by_name h k (l1 ++ l2) = by_name h k l1 ++ by_name h k l2.
Proof. unfold by_name. apply filter_app. Qed.

Theorem attach_inv h p c : Inv h -> ~ listed h c -> p <> c -> Inv (attach h p c).
Proof.
  intros [H1 H2 H3] Hn Hpc.
  set (h1 := set_parent_ptr h c p).
  assert (Hnm : forall x, nm (attach h p c x) = nm (h x)).
  { intros x. unfold attach, list_append. fold h1. unfold upd. destruct (Nat.eqb x p) eqn:E.
    - apply Nat.eqb_eq in E. subst. cbn. unfold h1. apply nm_set_parent_ptr.
    - unfold h1. apply nm_set_parent_ptr. }
  assert (Hl : forall x, lst (attach h p c x) = if Nat.eqb x p then lst (h p) ++ [c] else lst (h x)).
  { intros x. unfold attach, list_append. fold h1. unfold upd. destruct (Nat.eqb x p) eqn:E.
    - cbn. unfold h1. now rewrite lst_set_parent_ptr.
    - unfold h1. apply lst_set_parent_ptr. }
  assert (Hp : forall x, parent (attach h p c x) = if Nat.eqb x c then Some p else parent (h x)).
  { intros x. unfold attach, list_append. fold h1. unfold upd. destruct (Nat.eqb x p) eqn:E.
    - apply Nat.eqb_eq in E. subst x. cbn. destruct (Nat.eqb_spec p c); [congruence|].
      unfold h1, set_parent_ptr. now rewrite upd_other by auto.
    - unfold h1, set_parent_ptr, upd. destruct (Nat.eqb x c); reflexivity. }
  assert (Hi : forall x k, idx (attach h p c x) k =
            if Nat.eqb x p then (if Nat.eqb k (nm (h c)) then idx (h p) k ++ [c] else idx (h p) k) else idx (h x) k).
  { intros x k. unfold attach, list_append. fold h1. unfold upd. destruct (Nat.eqb x p) eqn:E.
    - cbn. unfold h1. rewrite nm_set_parent_ptr, idx_set_parent_ptr. reflexivity.
    - unfold h1. now rewrite idx_set_parent_ptr. }
  assert (Hc : ~ In c (lst (h p))) by (intro; apply Hn; now exists p).
  split.
  - intros q x Hx. rewrite Hl in Hx. rewrite Hp.
    destruct (Nat.eqb_spec x c) as [->|Nx].
    + destruct (Nat.eqb_spec q p) as [Eq|Nq]; [congruence|]. exfalso. apply Hn. now exists q.
    + destruct (Nat.eqb_spec q p) as [Eq|Nq].
      * subst q. apply in_app_or in Hx. destruct Hx as [Hx|[Hx|[]]]; [now apply H1|congruence].
      * now apply H1.
  - intros q. rewrite Hl. destruct (Nat.eqb_spec q p) as [Eq|Nq]; auto. now apply NoDup_snoc.
  - intros q k. rewrite Hi, Hl.
    assert (E : forall l, by_name (attach h p c) k l = by_name h k l)
      by (intros l; apply by_name_ext; intros; apply Hnm).
    rewrite E. destruct (Nat.eqb_spec q p) as [Eq|Nq]; [subst q|apply H3].
    rewrite by_name_app, <- H3. unfold by_name at 1. cbn.
    rewrite (Nat.eqb_sym k). destruct (Nat.eqb (nm (h c)) k); [reflexivity|now rewrite app_nil_r].
Qed.

Lemma by_name_remove h k c l : by_name h k (remove Nat.eq_dec c l) = remove Nat.eq_dec c (by_name h k l).
Proof.
  unfold by_name. induction l as [|a l IH]; cbn; [reflexivity|].
  destruct (Nat.eq_dec c a) as [E|N].
  - subst a. destruct (Nat.eqb (nm (h c)) k); cbn; [|exact IH].
    destruct (Nat.eq_dec c c); [exact IH|congruence].
  - cbn. destruct (Nat.eqb (nm (h a)) k); cbn; [|exact IH].
    destruct (Nat.eq_dec c a); [congruence|]. now rewrite IH.
Qed.

(* removal keeps the stale parent pointer, exactly like ElementList.remove *)
Theorem remove_inv h p c : Inv h -> Inv (list_remove h p c).
Proof.
  intros [H1 H2 H3].
  assert (Hnm : forall x, nm (list_remove h p c x) = nm (h x)).
  { intros x. unfold list_remove, upd. destruct (Nat.eqb_spec x p) as [->|]; reflexivity. }
  assert (Hp : forall x, parent (list_remove h p c x) = parent (h x)).
  { intros x. unfold list_remove, upd. destruct (Nat.eqb_spec x p) as [->|]; reflexivity. }
  assert (Hl : forall x, lst (list_remove h p c x) = if Nat.eqb x p then remove Nat.eq_dec c (lst (h p)) else lst (h x)).
  { intros x. unfold list_remove, upd. destruct (Nat.eqb x p); reflexivity. }
  split.
  - intros q x Hx. rewrite Hl in Hx. rewrite Hp. destruct (Nat.eqb_spec q p) as [->|Nq]; [|now apply H1].
    apply in_remove in Hx. now apply H1.
  - intros q. rewrite Hl. destruct (Nat.eqb_spec q p) as [->|Nq]; auto.
    clear -H2. specialize (H2 p). induction (lst (h p)) as [|a l IH]; cbn; [constructor|].
    inversion H2; subst. destruct (Nat.eq_dec c a); auto. constructor; auto.
    intro H. apply in_remove in H. tauto.
  - intros q k.
    assert (E : forall l, by_name (list_remove h p c) k l = by_name h k l)
      by (intros l; apply by_name_ext; intros; apply Hnm).
    rewrite E, Hl. unfold list_remove, upd. destruct (Nat.eqb_spec q p) as [->|Nq]; [|apply H3]. cbn.
    pose proof (by_name_remove h k c) as R.
    rewrite R, <- H3. destruct (Nat.eqb_spec k (nm (h c))) as [->|N]; auto.
    rewrite H3. symmetry. apply notin_remove. unfold by_name. intro H. apply filter_In in H.
    destruct H as [_ H]. apply Nat.eqb_eq in H. congruence.
Qed.

(* the defect F8 in the model: attaching a listed child breaks the invariant *)
Example reattach_breaks : exists h p q c, Inv h /\ In c (lst (h q)) /\ p <> c /\ ~ Inv (attach h p c).
Proof.
  pose (mk := fun par l => {| parent := par; nm := 0; lst := l; idx := fun k => if Nat.eqb k 0 then l else [] |}).
  pose (h := fun i => match i with 1 => mk None [3] | 3 => mk (Some 1) [] | _ => mk None [] end).
  exists h, 2, 1, 3. repeat split.
  - intros p c. destruct p as [|[|[|[|p]]]]; cbn; try tauto. intros [<-|[]]. reflexivity.
  - intros p. destruct p as [|[|[|[|p]]]]; cbn; repeat constructor; auto.
  - intros p k. destruct p as [|[|[|[|p]]]]; cbn; destruct k; cbn; reflexivity.
  - cbn. auto.
  - lia.
  - intros [H _ _]. specialize (H 1 3). cbn in H. assert (In 3 [3]) by (cbn; auto). specialize (H H0). discriminate.
Qed.
Print Assumptions attach_inv.
Print Assumptions remove_inv.
