# Pure functional reading of hl7apy's base-datatype layer (factories.py, utils.py, base_datatypes.py)
# written WITHOUT datetime / decimal / re, as a blueprint for Model/Datatypes.v.
# accept_*(s) -> encoded text (what to_er7 returns) or raises Reject(kind)

class Reject(Exception):
    def __init__(self, kind): self.kind = kind

DIG = '0123456789'
def isdig(c): return c in DIG
def alldig(s): return all(isdig(c) for c in s)

# ---------------------------------------------------------------- strptime fragments (CPython _strptime regexes)
# each returns list of possible (consumed_len, value) in regex priority order for the directive at s[i:]
def d_Y(s, i):
    t = s[i:i+4]
    return [(4, int(t))] if len(t) == 4 and alldig(t) else []
def alts(s, i, cands):
    out = []
    for pat in cands:
        r = pat(s, i)
        if r is not None: out.append(r)
    return out
def two(lo_ok):
    def f(s, i):
        t = s[i:i+2]
        return (2, int(t)) if len(t) == 2 and alldig(t) and lo_ok(t) else None
    return f
def one(ok=lambda c: True):
    def f(s, i):
        t = s[i:i+1]
        return (1, int(t)) if len(t) == 1 and isdig(t) and ok(t) else None
    return f
def sp_one(s, i):
    t = s[i:i+2]
    return (2, int(t[1])) if len(t) == 2 and t[0] == ' ' and t[1] in '123456789' else None
def d_m(s, i): return alts(s, i, [two(lambda t: t in ('10', '11', '12')), two(lambda t: t[0] == '0' and t[1] != '0'), one(lambda c: c != '0')])
def d_d(s, i): return alts(s, i, [two(lambda t: t in ('30', '31')), two(lambda t: t[0] in '12'), two(lambda t: t[0] == '0' and t[1] != '0'), one(lambda c: c != '0'), sp_one])
def d_H(s, i): return alts(s, i, [two(lambda t: t[0] == '2' and t[1] in '0123'), two(lambda t: t[0] in '01'), one()])
def d_M(s, i): return alts(s, i, [two(lambda t: t[0] in '012345'), one()])
def d_S(s, i): return alts(s, i, [two(lambda t: t in ('60', '61')), two(lambda t: t[0] in '012345'), one()])
def d_dot(s, i): return [(1, None)] if s[i:i+1] == '.' else []
def d_f(s, i):
    # [0-9]{1,6} greedy, backtracking to shorter
    n = 0
    while n < 6 and i + n < len(s) and isdig(s[i+n]): n += 1
    return [(k, s[i:i+k]) for k in range(n, 0, -1)]

FMT = {'%Y': [d_Y], '%Y%m': [d_Y, d_m], '%Y%m%d': [d_Y, d_m, d_d],
       '%H': [d_H], '%H%M': [d_H, d_M], '%H%M%S': [d_H, d_M, d_S], '%H%M%S.%f': [d_H, d_M, d_S, d_dot, d_f]}
def fmt_dirs(fmt):
    if fmt in FMT: return FMT[fmt]
    for k in ('%Y%m%d', ):
        if fmt.startswith(k) and fmt[len(k):] in FMT: return FMT[k] + FMT[fmt[len(k):]]
    raise KeyError(fmt)

def regex_match(dirs, s, i=0):
    """first successful path of the backtracking matcher (re.match semantics): returns (end, [values]) or None"""
    if not dirs: return (i, [])
    for (n, val) in dirs[0](s, i):
        r = regex_match(dirs[1:], s, i + n)
        if r is not None: return (r[0], [val] + r[1])
    return None

def days_in_month(y, m):
    if m == 2: return 29 if (y % 4 == 0 and (y % 100 != 0 or y % 400 == 0)) else 28
    return 30 if m in (4, 6, 9, 11) else 31

def strptime(s, fmt):
    """returns dict of fields or raises Reject('ValueError')"""
    r = regex_match(fmt_dirs(fmt), s)
    if r is None or r[0] != len(s): raise Reject('ValueError')
    names = [x for x in ['Y', 'm', 'd'] if '%' + x in fmt] + [x for x in ['H', 'M', 'S'] if '%' + x in fmt] + (['dot', 'f'] if '%f' in fmt else [])
    v = dict(zip(names, r[1]))
    y = v.get('Y', 1900); m = v.get('m', 1); d = v.get('d', 1)
    if not (1 <= y <= 9999) or not (1 <= d <= days_in_month(y, m)): raise Reject('ValueError')
    if v.get('S', 0) > 59: raise Reject('ValueError')
    v.update(Y=y, m=m, d=d)
    if 'f' in v: v['us'] = (v['f'] + '000000')[:6]
    return v

def p2(n): return '%02d' % n
def strftime(v, fmt):
    out = ''
    if '%Y' in fmt: out += str(v['Y']) if v['Y'] >= 1000 else str(v['Y'])   # glibc: unpadded below 1000
    if '%m' in fmt: out += p2(v['m'])
    if '%d' in fmt: out += p2(v['d'])
    if '%H' in fmt: out += p2(v['H'])
    if '%M' in fmt: out += p2(v['M'])
    if '%S' in fmt: out += p2(v['S'])
    if '%f' in fmt: out += '.' + v['us']
    return out

# ---------------------------------------------------------------- utils.py
def split_offset(value):
    """re.search(r'\\d*((\\+(1[0-4]|0[0-9])|(-(1[0-2]|0[0-9])))([0-5][0-9]))$'); value.replace(offset, '')"""
    if len(value) >= 5:
        o = value[-5:]
        ok = (o[0] == '+' and ((o[1] == '1' and o[2] in '01234') or (o[1] == '0' and isdig(o[2])))) or \
             (o[0] == '-' and ((o[1] == '1' and o[2] in '012') or (o[1] == '0' and isdig(o[2]))))
        if ok and o[3] in '012345' and isdig(o[4]):
            return value.replace(o, ''), o
    return value, ''

def date_format(value):
    if len(value) == 4: return '%Y'
    if len(value) == 6: return '%Y%m'
    if len(value) == 8: return '%Y%m%d'
    raise Reject('ValueError')

def timestamp_format(value):
    if len(value) == 2: return '%H', 4
    if len(value) == 4: return '%H%M', 4
    if len(value) == 6: return '%H%M%S', 4
    if 8 <= len(value) <= 11 and value[6] == '.': return '%H%M%S.%f', len(value) - 7
    raise Reject('ValueError')

def tm_ctor_check(offset, prec):
    if not (1 <= prec <= 4): raise Reject('InvalidMicrosecondsPrecision')
    # offset produced by split_offset always has length 5, sign, hour ranges already within ctor limits

def encode_tm(v, fmt, offset, prec):
    s = strftime(v, fmt)
    if '%f' in fmt: s = s[:-(6 - prec)]
    return s + offset

def accept_DT(s):
    fmt = date_format(s)
    return strftime(strptime(s, fmt), fmt)

def accept_TM(s):
    body, off = split_offset(s)
    fmt, prec = timestamp_format(body)
    v = strptime(body, fmt); tm_ctor_check(off, prec)
    return encode_tm(v, fmt, off, prec)

def accept_DTM(s):
    body, off = split_offset(s)
    dfmt = date_format(body[:8])
    try:
        tfmt, prec = timestamp_format(body[8:])
    except Reject:
        if not body[8:]: tfmt, prec = '', 4
        else: raise
    fmt = dfmt + tfmt
    v = strptime(body, fmt); tm_ctor_check(off, prec)
    return encode_tm(v, fmt, off, prec)

# ---------------------------------------------------------------- Decimal / int fragments (ASCII only)
WS = ' \t\n\r\x0b\x0c\x1c\x1d\x1e\x1f'
def strip(s):
    while s and s[0] in WS: s = s[1:]
    while s and s[-1] in WS: s = s[:-1]
    return s

def decimal_parse(text):
    """decimal.Decimal(str): returns (sign, coeff_digits, exp) or ('special', text) ; Reject('ValueError') if invalid"""
    s = strip(text).replace('_', '')
    sign = ''
    t = s
    if t[:1] and t[0] in '+-': sign = '-' if t[0] == '-' else ''; t = t[1:]
    low = t.lower()
    if low in ('inf', 'infinity'): return ('special', sign + 'Infinity')
    if low[:3] == 'nan' and alldig(low[3:]): return ('special', sign + 'NaN' + (low[3:].lstrip('0')))
    if low[:4] == 'snan' and alldig(low[4:]): return ('special', sign + 'sNaN' + (low[4:].lstrip('0')))
    # digits [. digits] | . digits ; optional exponent
    mant, exp = t, 0
    for i, c in enumerate(t):
        if c in 'eE':
            mant, e = t[:i], t[i+1:]
            es = 1
            if e[:1] and e[0] in '+-': es = -1 if e[0] == '-' else 1; e = e[1:]
            if not e or not alldig(e): raise Reject('ValueError')
            exp = es * int(e); break
    if mant.count('.') > 1: raise Reject('ValueError')
    ip, _, fp = mant.partition('.')
    if not alldig(ip) or not alldig(fp) or (ip == '' and fp == ''): raise Reject('ValueError')
    coeff = (ip + fp).lstrip('0') or '0'
    return (sign, coeff, exp - len(fp))

def decimal_str(d):
    if d[0] == 'special': return d[1]
    sign, coeff, exp = d
    leftdigits = exp + len(coeff)
    if exp <= 0 and leftdigits > -6: dotplace = leftdigits
    else: dotplace = 1
    if dotplace <= 0: ip = '0'; fp = '.' + '0' * (-dotplace) + coeff
    elif dotplace >= len(coeff): ip = coeff + '0' * (dotplace - len(coeff)); fp = ''
    else: ip = coeff[:dotplace]; fp = '.' + coeff[dotplace:]
    if leftdigits == dotplace: e = ''
    else: e = 'E%+d' % (leftdigits - dotplace)
    return sign + ip + fp + e

def accept_NM(s, strict, maxlen=16):
    if not s: return ''
    out = decimal_str(decimal_parse(s))
    if strict and len(out) > maxlen: raise Reject('MaxLengthReached')
    return out

def int_parse(text):
    s = strip(text)
    sign = ''
    if s[:1] and s[0] in '+-': sign = '-' if s[0] == '-' else ''; s = s[1:]
    # int() allows single underscores between digits
    if not s or s[0] == '_' or s[-1] == '_' or '__' in s: raise Reject('ValueError')
    t = s.replace('_', '')
    if not alldig(t): raise Reject('ValueError')
    t = t.lstrip('0') or '0'
    return ('-' if sign == '-' and t != '0' else '') + t

def accept_SI(s, strict, maxlen=4):
    if not s: return ''
    out = int_parse(s)
    if strict and len(out) > maxlen: raise Reject('MaxLengthReached')
    return out

# ---------------------------------------------------------------- escape
def escape(value, ec, letters, with_trunc):
    esc = ec['ESCAPE']
    trans = [(ec['FIELD'], 'F'), (ec['COMPONENT'], 'S'), (ec['SUBCOMPONENT'], 'T'), (ec['REPETITION'], 'R')]
    if with_trunc and 'TRUNCATION' in ec: trans.append((ec['TRUNCATION'], 'L'))
    for ch, L in trans: value = value.replace(ch, esc + L + esc)
    out = []
    n = len(value)
    for i, c in enumerate(value):
        if c == esc:
            behind = i >= 2 and value[i-2] == esc and value[i-1] in letters
            ahead = i + 2 < n and value[i+1] in letters and value[i+2] == esc
            out.append(esc + 'E' + esc if not behind and not ahead else c)
        else: out.append(c)
    return ''.join(out)
