# Pure functional reading of hl7apy.mllp request handling (one connection)
SB, EB, CR = 0x0b, 0x1c, 0x0d
def read_line(stream, k0):
    """stream: bytes sent by the client (then EOF or stall); k0 = size of first recv (1..3).
       returns ('close-no-handler', None) | ('line', bytes) """
    first = stream[:k0]
    if first[:1] != bytes([SB]): return ('reject', None)
    line = first; pos = len(first)
    while line[-2:] != bytes([EB, CR]):
        if pos >= len(stream): break            # EOF (or timeout -> close)
        line += stream[pos:pos+1]; pos += 1
    return ('line', line)
def extract(line_text):
    """regex  \\x0b(([^\\r]+\\r)*([^\\r]+\\r?))\\x1c\\r  with re.match (prefix match, greedy with backtracking)"""
    s = line_text
    if not s or s[0] != '\x0b': return None
    # find the LAST position p such that s[1:p] is a valid body and s[p:p+2] == '\x1c\r' (greedy)
    best = None
    for p in range(len(s) - 1, 0, -1):
        if s[p:p+2] == '\x1c\r':
            body = s[1:p]
            if body_ok(body): best = body; break
    return best
def body_ok(b):
    if not b: return False
    parts = b.split('\r')
    if parts[-1] == '': parts = parts[:-1]       # optional final CR
    return len(parts) >= 1 and all(len(x) > 0 for x in parts)
def serve(stream, k0, handlers, has_err, get_message_type):
    """returns list of events: ('handler', key, payload) / ('err', excname, payload) and final ('reply', who) / ('close',)"""
    kind, line = read_line(stream, k0)
    if kind == 'reject': return [('close',)]
    try: text = line.decode('utf-8')
    except UnicodeDecodeError: return [('close',)]
    msg = extract(text)
    if msg is None: return [('close',)]
    try:
        mt = get_message_type(msg)
    except Exception as e:
        exc = 'InvalidHL7Message' if type(e).__name__ in ('ParserError',) else type(e).__name__
        return ([('err', exc, msg), ('close',)] if has_err else [('close',)])
    if mt in handlers: return [('handler', mt, msg), ('close',)]
    return ([('err', 'UnsupportedMessageType', msg), ('close',)] if has_err else [('close',)])
