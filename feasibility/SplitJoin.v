From Coq Require Import List Bool Arith Lia.
Import ListNotations.

Section Str.
Variable A : Type.
Variable eqb : A -> A -> bool.
Hypothesis eqb_spec : forall x y, reflect (x = y) (eqb x y).

(* Python str.split(sep) for a one-character separator: always returns a non-empty list *)
Fixpoint split_aux (c : A) (cur : list A) (s : list A) : list (list A) :=
  match s with
  | [] => [rev cur]
  | x :: r => if eqb x c then rev cur :: split_aux c [] r else split_aux c (x :: cur) r
  end.
Definition split (c : A) (s : list A) := split_aux c [] s.

Fixpoint join (c : A) (l : list (list A)) : list A :=
  match l with
  | [] => []
  | [x] => x
  | x :: r => x ++ c :: join c r
  end.

Definition nosep (c : A) (x : list A) := forallb (fun y => negb (eqb y c)) x.

Lemma split_aux_app c cur x r : nosep c x = true ->
  split_aux c cur (x ++ r) = match r with
                              | [] => [rev cur ++ x]
                              | _ => split_aux c (rev x ++ cur) r end.
Proof.
  revert cur. induction x as [|y x IH]; intros cur H; simpl in *.
  - destruct r; simpl; auto. now rewrite app_nil_r.
  - apply andb_prop in H. destruct H as [Hy Hx].
    destruct (eqb y c) eqn:E; [discriminate|].
    rewrite IH by auto. destruct r; simpl.
    + now rewrite <- app_assoc.
    + now rewrite <- app_assoc.
Qed.

Lemma split_join c l : l <> [] -> forallb (nosep c) l = true -> split c (join c l) = l.
Proof.
  unfold split. intros Hne H.
  assert (G: forall cur, split_aux c cur (join c l) =
             match l with [] => [rev cur] | x :: r => (rev cur ++ x) :: r end).
  { induction l as [|x r IH]; intros cur; [congruence|].
    simpl in H. apply andb_prop in H. destruct H as [Hx Hr].
    destruct r as [|y r'].
    - simpl. rewrite <- (app_nil_r x) at 1. rewrite split_aux_app by auto. reflexivity.
    - change (join c (x :: y :: r')) with (x ++ c :: join c (y :: r')).
      rewrite split_aux_app by auto.
      simpl. destruct (eqb_spec c c); [|congruence].
      rewrite rev_app_distr, rev_involutive. f_equal.
      rewrite IH by (auto; congruence). reflexivity. }
  rewrite G. destruct l; [congruence|]. reflexivity.
Qed.

Lemma split_aux_ne c cur s : split_aux c cur s <> [].
Proof. revert cur; induction s as [|x r IH]; intros cur; simpl; [discriminate|].
  destruct (eqb x c); [discriminate|apply IH]. Qed.

Lemma join_split c s : join c (split c s) = s.
Proof.
  unfold split.
  assert (G: forall cur, join c (split_aux c cur s) = rev cur ++ s).
  { induction s as [|x r IH]; intros cur; simpl.
    - now rewrite app_nil_r.
    - destruct (eqb_spec x c) as [->|N].
      + specialize (IH []). simpl in IH.
        destruct (split_aux c [] r) eqn:E.
        * exfalso. exact (split_aux_ne _ _ _ E).
        * change (join c (rev cur :: l :: l0)) with (rev cur ++ c :: join c (l :: l0)). now rewrite IH.
      + rewrite IH. simpl. now rewrite <- app_assoc. }
  apply (G []).
Qed.
End Str.
