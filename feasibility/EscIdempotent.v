From Coq Require Import List Bool Arith Lia.
Import ListNotations.
Set Implicit Arguments.

Section Esc.
Variable A : Type.
Variable eqb : A -> A -> bool.
Hypothesis eqb_spec : forall x y, reflect (x = y) (eqb x y).
Variable esc : A.
Variable E : A.
Variable letter : A -> bool.
Hypothesis letter_E : letter E = true.
Hypothesis letter_esc : letter esc = false.

Definition is_esc (c:A) := eqb c esc.

(* lookahead on the ORIGINAL remaining string: letter then esc *)
Definition ahead (rest : list A) : bool :=
  match rest with l :: e :: _ => letter l && is_esc e | _ => false end.
(* lookbehind on the two previous ORIGINAL chars *)
Definition behind (p2 p1 : option A) : bool :=
  match p2, p1 with Some a, Some b => is_esc a && letter b | _, _ => false end.

Fixpoint scan (p2 p1 : option A) (s : list A) : list A :=
  match s with
  | [] => []
  | c :: rest =>
      (if is_esc c && negb (behind p2 p1) && negb (ahead rest)
       then [esc; E; esc] else [c]) ++ scan p1 (Some c) rest
  end.

Definition resub (s : list A) := scan None None s.
End Esc.

Section EscProofs.
Variable A : Type.
Variable eqb : A -> A -> bool.
Hypothesis eqb_spec : forall x y, reflect (x = y) (eqb x y).
Variable esc E : A.
Variable letter : A -> bool.
Hypothesis letter_E : letter E = true.
Hypothesis letter_esc : letter esc = false.

Notation is_esc := (is_esc eqb esc).
Notation scan := (scan eqb esc E letter).
Notation behind := (behind eqb esc letter).
Notation ahead := (ahead eqb esc letter).

Definition oesc (o : option A) : bool := match o with Some a => is_esc a | None => false end.
Definition R (p2 p1 q2 q1 : option A) : Prop :=
  oesc q1 = oesc p1 /\ behind q2 q1 = behind p2 p1.

Lemma is_esc_esc : is_esc esc = true.
Proof. unfold EscIdempotent.is_esc. destruct (eqb_spec esc esc); congruence. Qed.
Lemma is_esc_true c : is_esc c = true -> c = esc.
Proof. unfold EscIdempotent.is_esc. destruct (eqb_spec c esc); congruence. Qed.
Lemma is_esc_E : is_esc E = false.
Proof. destruct (is_esc E) eqn:H; auto. apply is_esc_true in H. congruence. Qed.
Lemma letter_not_esc l : letter l = true -> is_esc l = false.
Proof. intros H. destruct (is_esc l) eqn:H1; auto. apply is_esc_true in H1. congruence. Qed.

Lemma behind_step q1 p1 c : oesc q1 = oesc p1 -> behind q1 (Some c) = behind p1 (Some c).
Proof. intros H. destruct q1, p1; simpl in *; try rewrite H; auto; try (rewrite <- H; auto). Qed.

Lemma ahead_scan p2 rest : ahead rest = true -> ahead (scan p2 (Some esc) rest) = true.
Proof.
  destruct rest as [|l [|e r]]; simpl; try discriminate.
  intros H. apply andb_prop in H. destruct H as [Hl He].
  rewrite (letter_not_esc Hl). simpl.
  rewrite He. simpl. rewrite is_esc_esc, Hl. simpl. rewrite (is_esc_true He), is_esc_esc. reflexivity.
Qed.

Lemma scan_keep q2 q1 c out :
  is_esc c && negb (behind q2 q1) && negb (ahead out) = false ->
  scan q2 q1 (c :: out) = c :: scan q1 (Some c) out.
Proof. intros H. simpl. rewrite H. reflexivity. Qed.

Lemma scan_idem s : forall p2 p1 q2 q1, R p2 p1 q2 q1 ->
  scan q2 q1 (scan p2 p1 s) = scan p2 p1 s.
Proof.
  induction s as [|c rest IH]; intros p2 p1 q2 q1 [H1 H2]; [reflexivity|].
  cbn [EscIdempotent.scan].
  destruct (is_esc c) eqn:Hc.
  - pose proof (is_esc_true Hc) as ->.
    destruct (behind p2 p1) eqn:Hb.
    + cbn [andb negb app]. rewrite scan_keep.
      * f_equal. apply IH. split; auto. apply behind_step; auto.
      * rewrite H2. cbn. rewrite andb_false_r. reflexivity.
    + destruct (ahead rest) eqn:Ha.
      * cbn [andb negb app]. rewrite scan_keep.
        -- f_equal. apply IH. split; auto. apply behind_step; auto.
        -- rewrite (ahead_scan p1 rest Ha). cbn. rewrite andb_false_r. reflexivity.
      * cbn [andb negb app].
        rewrite scan_keep.
        2:{ cbn [EscIdempotent.ahead]. rewrite letter_E, is_esc_esc. cbn. try rewrite andb_false_r. reflexivity. }
        rewrite scan_keep.
        2:{ rewrite is_esc_E. reflexivity. }
        rewrite scan_keep.
        2:{ cbn [EscIdempotent.behind]. rewrite is_esc_esc, letter_E. cbn. try rewrite andb_false_r. reflexivity. }
        do 3 f_equal. apply IH. split; [reflexivity|].
        cbn [EscIdempotent.behind]. rewrite is_esc_E. cbn.
        destruct p1; cbn; auto. rewrite letter_esc, andb_false_r. reflexivity.
  - cbn [andb app]. rewrite scan_keep.
    + f_equal. apply IH. split; auto. apply behind_step; auto.
    + rewrite Hc. reflexivity.
Qed.

Theorem resub_idempotent s : resub eqb esc E letter (resub eqb esc E letter s) = resub eqb esc E letter s.
Proof. apply scan_idem. split; reflexivity. Qed.
End EscProofs.
Print Assumptions resub_idempotent.
