import sys, random, collections, traceback
sys.path.insert(0,'/repo')
import hl7apy
from hl7apy.core import *
from hl7apy.exceptions import *
sys.path.insert(0, "/verif/feasibility")
import reading_parse_encode as M, reading_heap as HM
EC=dict(hl7apy.consts.DEFAULT_ENCODING_CHARS)
hl7apy.set_default_encoding_chars(dict(EC))
V='2.5'
def idump(el):
    return (el.classname[0], el.name, el.datatype if not isinstance(el,Segment) else None,
            [idump(c) for c in el.children.list],
            sorted((k,len(x)) for k,x in el.children.indexes.items() if x),
            sorted((k,len(x)) for k,x in el.children.traversal_indexes.items() if x),
            [c.parent is el for c in el.children.list])
FIELDS=['PID_1','PID_3','PID_5','PID_13','PID_8']
COMPS={'PID_3':['CX_1','CX_4','CX_5','PID_3_2'],'PID_5':['XPN_1','XPN_2','PID_5_3'],'PID_13':['XTN_1','XTN_2'],'PID_1':['SI','PID_1_1'],'PID_8':['IS']}
SUBS={'CX_4':['HD_1','HD_2'],'XPN_1':['FN_1','FN_2']}
TEXTS=['a','b^c','d&e','1','f^g&h^i','','x~y','20200101','toolong'*40]
def classify(e):
    if isinstance(e,MErrT): return e.cls
    if isinstance(e,HL7apyException): return type(e).__name__
    if isinstance(e,ValueError): return 'ValueError'
    return 'Crash'
class MErrT(Exception): pass
st=collections.Counter(); ex={}
def run(seed, lvl, nops):
    rnd=random.Random(seed)
    # impl state
    I=[Segment('PID',version=V,validation_level=lvl), Segment('PID',version=V,validation_level=lvl)]
    H=HM.Heap(EC)
    Mh=[H.alloc(M.mk_segment('PID',V,lvl),V,lvl), H.alloc(M.mk_segment('PID',V,lvl),V,lvl)]
    hist=[]
    for step in range(nops):
        op=rnd.choice(['set','set','setidx','newfield','add','setel','addfield','delname','delidx','copy','read','tset','tset3','fvalue','grab','setlow'])
        f=rnd.choice(FIELDS); fl=f.lower(); txt=rnd.choice(TEXTS); sh=rnd.randrange(2); i=rnd.randrange(3)
        segs=[k for k,x in enumerate(I) if isinstance(x,Segment)]; flds=[k for k,x in enumerate(I) if isinstance(x,Field)]
        sh=rnd.choice(segs)
        desc=None
        def both(fi, fm):
            try: ri=('ok',fi())
            except Exception as e: ri=('exc',classify(e))
            try: rm=('ok',fm())
            except M.MErr as e: rm=('exc',e.cls)
            return ri,rm
        if op=='set':
            desc='h%d.%s=%r'%(sh,fl,txt)
            r=both(lambda: setattr(I[sh],fl,txt), lambda: H.children_set(Mh[sh],fl,('str',txt),0))
        elif op=='setlow':
            ln={'PID_1':'set_id_pid','PID_3':'patient_identifier_list','PID_5':'patient_name','PID_13':'phone_number_home','PID_8':'administrative_sex'}[f]
            desc='h%d.%s=%r'%(sh,ln,txt)
            r=both(lambda: setattr(I[sh],ln,txt), lambda: H.children_set(Mh[sh],ln,('str',txt),0))
        elif op=='setidx':
            desc='h%d.%s[%d]=%r'%(sh,fl,i,txt)
            r=both(lambda: getattr(I[sh],fl).__setitem__(i,txt), lambda: H.children_set(Mh[sh],H.proxy_name(Mh[sh],fl),('str',txt),i))
        elif op=='newfield':
            l2 = lvl if rnd.random()<.85 else 3-lvl
            desc='h%d=Field(%r,lvl=%d);.value=%r'%(len(I),f,l2,txt)
            def fi():
                x=Field(f,version=V,validation_level=l2); I.append(x); x.value=txt
            def fm():
                x=H.alloc(M.mk_field(f,V,l2,None),V,l2); Mh.append(x); H.set_value(x,txt)
            n0=len(I); r=both(fi,fm)
            if len(I)!=len(Mh):
                while len(I)>len(Mh): I.pop()
                while len(Mh)>len(I): Mh.pop()
        elif op=='add':
            if not flds: continue
            fh=rnd.choice(flds); desc='h%d.add(h%d)'%(sh,fh)
            r=both(lambda: I[sh].add(I[fh]), lambda: H.add(Mh[sh],Mh[fh]))
        elif op=='setel':
            if not flds: continue
            fh=rnd.choice(flds); nm=I[fh].name.lower() if rnd.random()<.8 else fl; desc='h%d.%s=h%d'%(sh,nm,fh)
            r=both(lambda: setattr(I[sh],nm,I[fh]), lambda: H.children_set(Mh[sh],nm,('el',Mh[fh]),0))
        elif op=='addfield':
            desc='h%d=h%d.add_field(%r);.value=%r'%(len(I),sh,f,txt)
            def fi():
                x=I[sh].add_field(f); I.append(x); x.value=txt
            def fm():
                x=H.create_element(Mh[sh],f,False); Mh.append(x); H.set_value(x,txt)
            r=both(fi,fm)
            if len(I)!=len(Mh):
                # creation succeeded on one side only, or attach failed after construction: drop unmatched handles
                while len(I)>len(Mh): I.pop()
                while len(Mh)>len(I): Mh.pop()
        elif op=='delname':
            desc='del h%d.%s'%(sh,fl)
            r=both(lambda: delattr(I[sh],fl), lambda: H.remove(Mh[sh],H.child_at_index(Mh[sh],fl,0)))
        elif op=='delidx':
            desc='del h%d.%s[%d]'%(sh,fl,i)
            def fm():
                pn=H.proxy_name(Mh[sh],fl); lst=H.n[Mh[sh]]['idx'].get(pn,[])
                if i>=len(lst): raise M.MErr('Crash')
                H.remove(Mh[sh],lst[i])
            r=both(lambda: getattr(I[sh],fl).__delitem__(i), fm)
        elif op=='copy':
            oh=rnd.choice(segs); desc='h%d.%s=h%d.%s'%(sh,fl,oh,fl)
            r=both(lambda: setattr(I[sh],fl,getattr(I[oh],fl)), lambda: H.children_set(Mh[sh],fl,('proxy',Mh[oh],H.proxy_name(Mh[oh],fl)),0))
        elif op=='read':
            c=rnd.choice(COMPS[f]); desc='h%d.%s.%s.value'%(sh,fl,c.lower())
            def fm():
                el=H.proxy_element(Mh[sh],H.proxy_name(Mh[sh],fl)); pn=H.proxy_name(el,c.lower())
                el2=H.proxy_element(el,pn); return H.to_er7(el2)
            def fi():
                x=getattr(getattr(I[sh],fl),c.lower()).value
                return x if isinstance(x,str) else (x.to_er7(EC) if x is not None and hasattr(x,'to_er7') else '')
            r=both(fi,fm)
        elif op=='tset':
            c=rnd.choice(COMPS[f]); desc='h%d.%s.%s=%r'%(sh,fl,c.lower(),txt)
            def fm():
                el=H.proxy_element(Mh[sh],H.proxy_name(Mh[sh],fl))
                try: H.children_set(el,c.lower(),('str',txt),0)
                except M.MErr as e:
                    if e.cls!='ChildNotFound' or H.n[el]['cls']!='Field': raise
                    H.children_set(el,H.positional(el,c),('str',txt),0)
            r=both(lambda: setattr(getattr(I[sh],fl),c.lower(),txt), fm)
        elif op=='tset3':
            if f not in ('PID_3','PID_5'): continue
            c={'PID_3':'CX_4','PID_5':'XPN_1'}[f]; sc=rnd.choice(SUBS[c]); desc='h%d.%s.%s.%s=%r'%(sh,fl,c.lower(),sc.lower(),txt)
            def fm():
                el=H.proxy_element(Mh[sh],H.proxy_name(Mh[sh],fl)); el2=H.proxy_element(el,H.proxy_name(el,c.lower()))
                H.children_set(el2,sc.lower(),('str',txt),0)
            r=both(lambda: setattr(getattr(getattr(I[sh],fl),c.lower()),sc.lower(),txt), fm)
        elif op=='fvalue':
            desc='h%d.%s.value=%r'%(sh,fl,txt)
            def fm():
                el=H.proxy_element(Mh[sh],H.proxy_name(Mh[sh],fl)); H.to_traversal(el); H.set_value(el,txt)
            r=both(lambda: setattr(getattr(I[sh],fl),'value',txt), fm)
        elif op=='grab':
            lst=getattr(I[sh],fl).list
            if i>=len(lst): continue
            desc='h%d=h%d.%s[%d]'%(len(I),sh,fl,i)
            I.append(lst[i]); Mh.append(H.n[Mh[sh]]['idx'][f][i]); r=(('ok',None),('ok',None))
        hist.append(desc)
        ri,rm=r
        st[('op',op,ri[0] if ri[0]=='ok' else ri[1])]+=1
        if ri[0]=='ok' and op!='read': ri=('ok',None)
        if rm[0]=='ok' and op!='read': rm=('ok',None)
        def obs_i():
            out=[]
            for x in I:
                try: e=x.to_er7(EC)
                except Exception as ee: e='EXC:'+classify(ee)
                out.append((idump(x),e))
            return out
        def obs_m():
            out=[]
            for x in Mh:
                try: e=H.to_er7(x)
                except M.MErr as ee: e='EXC:'+ee.cls
                out.append((H.dump(x),e))
            return out
        try:
            oi=obs_i(); om=obs_m()
        except Exception as e:
            st['obs-crash']+=1; ex.setdefault('obs-crash',(hist,traceback.format_exc()[-400:])); return
        if ri!=rm or oi!=om:
            kind=('outcome',op,ri,rm) if ri!=rm else ('state',op,ri)
            st[('DIS',)+kind[:2]]+=1
            if kind not in ex:
                d=[(a,b) for a,b in zip(oi,om) if a!=b][:1]
                ex[kind]=(lvl,list(hist),str(d)[:700])
            return
    st[('agree',lvl)]+=1
    if False: print('SAMPLE',hist,[o[1] for o in oi])
N=int(sys.argv[2]); base=int(sys.argv[1])
for s in range(N):
    for lvl in (2,1):
        try: run(base*100000+s, lvl, 16)
        except Exception as e:
            st['harness-crash']+=1; ex.setdefault('harness-crash',traceback.format_exc()[-800:])
for k in sorted(st,key=str): print(k,st[k])
for k,e in list(ex.items())[:12]: print(k,'\n   ',str(e)[:1100])
