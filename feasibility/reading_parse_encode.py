# Pure functional reading of hl7apy parse_segment / to_er7 (segment level), blueprint for the Gallina model.
# Trees are dicts; no hl7apy objects are used except the raw tables and the datatype classes' to_er7 via leaf_rt().
import sys
sys.path.insert(0, '/repo')
import hl7apy
from hl7apy.exceptions import *

STRICT, TOL = 1, 2


class MErr(Exception):
    def __init__(self, cls): self.cls = cls


def lib(v): return hl7apy.load_library(v)
def is_base(dt, v): return dt in lib(v).BASE_DATATYPES


def valid_child_name(child_name, expected_parent):
    try:
        parent, index = child_name.rsplit('_', 1); int(index)
    except (ValueError, AttributeError):
        return False
    return str(parent).upper() == str(expected_parent).upper()


def valid_z_segment_name(n): return n.upper().startswith('Z') and len(n) == 3
import re
def valid_z_field_name(n): return re.match(r'^z[a-z1-9]{2}_\d+$', n, re.IGNORECASE) is not None


def parse_structure(reference):
    d = {'reference': reference, 'sbn': None, 'ordered': None, 'reps': {}, 'dt': None, 'has_dt': False}
    if reference[0] in ('sequence', 'choice'):
        sbn = {}; ordered = []; reps = {}; cnt = {}
        for c in reference[1]:
            name, cref, card, cls = c
            k = name if name not in sbn else '%s_%d' % (name, cnt.get(name, 0))
            sbn[k] = {'ref': cref, 'name': k}
            cnt[name] = cnt.get(name, 0) + 1
            reps[k] = card; ordered.append(k)
        d.update(sbn=sbn, ordered=ordered, reps=reps)
    if len(reference) > 5:
        d['dt'] = reference[2]; d['has_dt'] = True
    return d


def load_ref(name, kind, v):
    tbl = {'Segment': 'SEGMENTS', 'Field': 'FIELDS', 'Component': 'DATATYPES', 'SubComponent': 'DATATYPES',
           'Datatypes_Structs': 'DATATYPES_STRUCTS'}[kind]
    try:
        return getattr(lib(v), tbl)[name]
    except KeyError:
        raise MErr('InvalidName')


# ---------------------------------------------------------------- leaves
def leaf_rt(dt, text, v, lvl, ec):
    """to_er7(datatype_factory(dt, text)) -- delegated to the implementation's datatype layer (modelled separately)"""
    from hl7apy.factories import datatype_factory
    try:
        o = datatype_factory(dt, text, v, lvl)
    except ValueError:
        raise MErr('ValueError')
    except HL7apyException as e:
        raise MErr(type(e).__name__)
    return o.to_er7(ec)


# ---------------------------------------------------------------- constructors
def mk_subcomponent(name, datatype, value, v, lvl, reference, ec):
    if not name and datatype is None:
        raise MErr('OperationNotAllowed')
    nm, dt = canbevaries(name, datatype, reference, v, lvl, 'SubComponent')[:2]
    if name is not None and valid_child_name(name, 'VARIES') and dt is None:
        dt = 'ST'
    if value:
        val = leaf_rt(dt, value, v, lvl, ec)      # encoded text of the leaf
    else:
        val = ''
    return {'cls': 'SubComponent', 'name': nm, 'dt': dt, 'enc': val}


def canbevaries(name, datatype, reference, v, lvl, kind):
    """returns (name, datatype, structure)"""
    if datatype == 'varies' and reference is None:
        reference = ('leaf', None, 'varies', None, None, -1)
    if lvl != STRICT and datatype not in (None, 'varies') and not is_base(datatype, v):
        children_refs = load_ref_cnf(datatype, 'Datatypes_Structs', v)
        if name is not None:
            orig = load_ref_cnf(name, 'Component', v)
            reference = ('sequence', children_refs, datatype, orig[3], orig[4], orig[5])
        else:
            reference = ('sequence', children_refs, datatype, None, None, -1)
    st = None; dt0 = None
    if name is not None and valid_child_name(name, 'VARIES'):
        if reference is not None:
            st = parse_structure(reference); dt0 = st['dt']
        nm = name.upper()
    else:
        nm = name.upper() if name is not None else None
        if nm is not None or reference is not None:
            ref = reference if reference is not None else load_ref(nm, kind, v)
            st = parse_structure(ref); dt0 = st['dt']
    if nm and not nm.startswith('VARIES') and dt0 is None:
        raise MErr('InvalidName')
    dt = dt0
    if nm:
        if lvl == STRICT and None not in (datatype, dt0) and datatype != dt0:
            raise MErr('OperationNotAllowed')
        elif datatype is not None:
            dt = set_datatype(dt0, datatype, v, lvl, kind)
    else:
        dt = datatype
        nm = dt
    return nm, dt, st


def load_ref_cnf(name, kind, v):
    # load_reference raising ChildNotFound (not converted)
    try:
        return load_ref(name, kind, v)
    except MErr:
        raise MErr('ChildNotFound')


def set_datatype(old, new, v, lvl, kind):
    # only the paths reachable from the parser: no children yet, no restructuring needed when new == old
    if kind == 'SubComponent':
        if new and not is_base(new, v): raise MErr('OperationNotAllowed')
        if lvl == STRICT and old is not None and new != old: raise MErr('OperationNotAllowed')
        return new
    if lvl == STRICT and old and new != old: raise MErr('OperationNotAllowed')
    return new


def mk_component(name, datatype, v, lvl, reference):
    nm, dt, st = canbevaries(name, datatype, reference, v, lvl, 'Component')
    if nm == dt and lvl == STRICT and not is_base(dt, v) and dt != 'varies':
        raise MErr('OperationNotAllowed')
    return {'cls': 'Component', 'name': nm, 'dt': dt, 'st': st, 'children': []}


def mk_field(name, v, lvl, reference, datatype=None):
    if name is None and lvl == STRICT and datatype != 'varies':
        raise MErr('OperationNotAllowed')
    if datatype == 'varies' and reference is None:
        reference = ('leaf', None, 'varies', None, None, -1)
    nm = name.upper() if name is not None else None
    st = None; dt = None
    if nm is not None:
        try:
            ref = reference if reference is not None else load_ref(nm, 'Field', v)
        except MErr:
            if valid_z_field_name(name):
                d = datatype or 'ST'
                if is_base(d, v): ref = ('leaf', None, d, None, None, -1)
                else: ref = ('sequence', load_ref_cnf(d, 'Datatypes_Structs', v), d, None, None, -1)
                datatype = d
            else:
                raise
        st = parse_structure(ref); dt = st['dt']
    if datatype is not None and lvl == STRICT and datatype != 'varies' and datatype != dt:
        raise MErr('OperationNotAllowed')
    if datatype is not None: dt = datatype
    elif nm is None: dt = None
    return {'cls': 'Field', 'name': nm, 'dt': dt, 'st': st, 'children': []}


def mk_segment(name, v, lvl, reference=None):
    nm = name.upper()
    if valid_z_segment_name(name):
        if reference is None: reference = ('sequence', ())
        st = parse_structure(reference)
        return {'cls': 'Segment', 'name': nm, 'st': st, 'inf': True, 'last_allowed': 0, 'last': 0, 'children': []}
    ref = reference if reference is not None else load_ref(nm, 'Segment', v)
    if ref[0] not in ('sequence', 'choice'): raise MErr('Crash')
    st = parse_structure(ref)
    if not st['ordered']: raise MErr('Crash')
    last = st['sbn'][st['ordered'][-1]]
    return {'cls': 'Segment', 'name': nm, 'st': st, 'inf': last['ref'][2] == 'varies',
            'last_allowed': int(last['name'][4:]), 'last': int(last['name'][4:]), 'children': []}


# ---------------------------------------------------------------- parser
def parse_subcomponents(text, cdt, v, ec, lvl, references):
    out = []
    for i, s in enumerate(text.split(ec['SUBCOMPONENT'])):
        if is_base(cdt, v) or cdt is None:
            nm = None; dt = cdt if cdt is not None else 'ST'
        else:
            nm = '%s_%d' % (cdt, i + 1); dt = None
        ref = None
        if references is not None and nm is not None:
            if nm in references: ref = references[nm]['ref']
            else: nm = None; dt = 'ST'
        if s.strip() or nm is None:
            out.append(mk_subcomponent(nm, dt, s, v, lvl, ref, ec))
    return out


def parse_component(text, name, datatype, v, ec, lvl, reference):
    try:
        c = mk_component(name, datatype, v, lvl, reference)
    except MErr as e:
        if e.cls != 'InvalidName' or lvl == STRICT: raise
        c = mk_component(datatype, None, v, lvl, reference)      # datatype passed in the NAME position
    kids = parse_subcomponents(text, c['dt'], v, ec, lvl, c['st']['sbn'] if c['st'] else None)
    if lvl == TOL and is_base(c['dt'], v) and len(kids) > 1:
        c['dt'] = None
    add_children(c, kids, v, lvl)
    return c


def parse_components(text, fdt, v, ec, lvl, references):
    out = []
    for i, s in enumerate(text.split(ec['COMPONENT'])):
        if is_base(fdt, v): cdt = fdt; nm = None
        elif fdt is None or fdt == 'varies': cdt = None; nm = 'VARIES_%d' % (i + 1)
        else: nm = '%s_%d' % (fdt, i + 1); cdt = None
        ref = None
        if references is not None and nm is not None and nm in references: ref = references[nm]['ref']
        if s.strip() or nm is None or nm.startswith('VARIES_'):
            out.append(parse_component(s, nm, cdt, v, ec, lvl, ref))
    return out


def parse_field(text, name, v, ec, lvl, reference, force_varies):
    try:
        f = mk_field(name, v, lvl, reference)
    except MErr as e:
        if e.cls != 'InvalidName': raise
        if force_varies:
            f = mk_field(name, v, lvl, ('leaf', None, 'varies', None, None, -1))
        else:
            f = mk_field(None, v, lvl, reference)
    if name in ('MSH_1', 'MSH_2'):
        sc = mk_subcomponent(None, 'ST', text, v, lvl, None, ec); sc['raw'] = text
        c = mk_component(None, 'ST', v, lvl, None); c['children'] = [sc]
        f['children'] = [c]
        return f
    kids = parse_components(text, f['dt'], v, ec, lvl, f['st']['sbn'] if f['st'] else None)
    if lvl == TOL and is_base(f['dt'], v) and len(kids) > 1:
        f['dt'] = None
    add_children(f, kids, v, lvl)
    return f


def add_children(parent, kids, v, lvl):
    """children = kids, with the admission checks that can fire on the parser path"""
    for k in kids:
        if parent['cls'] in ('Field', 'Component'):
            if parent['name'] and is_base(parent['dt'], v) and len(parent['children']) >= 1:
                raise MErr('MaxChildLimitReached')
            if parent['cls'] == 'Component' and k['name'] and k['name'] != k['dt']:
                if not valid_child_name(k['name'], parent['dt']): raise MErr('ChildNotValid')
            if not valid_child_complex(parent, k, v, lvl): raise MErr('ChildNotValid')
        if lvl == STRICT and k['name'] is not None:
            mn, mx = (parent['st']['reps'] if parent.get('st') else {}).get(k['name'], (0, -1))
            have = sum(1 for c in parent['children'] if c['name'] == k['name'])
            if have + 1 > int(mx) and mx > -1:
                raise MErr('MaxChildLimitReached')
        parent['children'].append(k)
        if parent['cls'] == 'Segment' and k['name'] and parent['inf']:
            idx = int(k['name'][4:])
            if idx > parent['last']: parent['last'] = idx


def unknown(k): return k['name'] == k['dt']


def valid_child_complex(p, k, v, lvl):
    """SupportComplexDataType._is_valid_child (class check omitted: parser always builds the right class)"""
    base = is_base(p['dt'], v)
    if not base:
        if p['dt'] in (None, 'varies') and valid_child_name(k['name'], 'varies'): return True
        if p['dt'] is None and valid_child_name(p['name'], 'varies') and unknown(k): return True
        if unknown(k) and lvl == STRICT: return False
        if not unknown(k) and p['dt'] and not valid_child_name(k['name'], p['dt']): return False
    else:
        if k['dt'] and k['dt'] != p['dt']: return False
    if k['name'] is not None and not is_base(k['name'], v):
        sbn = p['st']['sbn'] if p.get('st') and p['st']['sbn'] is not None else None
        if sbn is not None and k['name'] in sbn: return True
        # find_reference in the global tables; ChildNotFound -> False ; found but structure present -> ChildNotValid (raised)
        if k['name'] not in lib(v).DATATYPES: return False
        if sbn is not None: raise MErr('ChildNotValid')
    return True


def parse_fields(text, prefix, v, ec, lvl, references, force_varies):
    text = text.strip('\r')
    out = []
    for i, f in enumerate(text.split(ec['FIELD'])):
        name = '%s_%d' % (prefix, i + 1)
        ref = references[name]['ref'] if references is not None and name in references else None
        if f.strip():
            if name == 'MSH_2':
                out.append(parse_field(f, name, v, ec, lvl, ref, False))
            else:
                for rep in f.split(ec['REPETITION']):
                    out.append(parse_field(rep, name, v, ec, lvl, ref, force_varies))
        elif name == 'MSH_1':
            out.append(parse_field(ec['FIELD'], name, v, ec, lvl, ref, False))
    return out


def parse_segment(text, v, ec, lvl, reference=None):
    name = text[:3]
    rest = text[4:] if name != 'MSH' else text[3:]
    seg = mk_segment(name, v, lvl, reference)
    kids = parse_fields(rest, name, v, ec, lvl, seg['st']['sbn'], seg['inf'])
    for k in kids:
        if k['name'] is None and lvl == STRICT: raise MErr('ChildNotValid')
    add_children(seg, kids, v, lvl)
    return seg


# ---------------------------------------------------------------- encoder
def remove_trailing(l):
    while l and not l[-1]: l = l[:-1]
    return l


def enc_sub(sc, ec): return sc.get('raw', sc['enc'])


def slots_generic(el):
    by = {}
    for c in el['children']: by.setdefault(c['name'], []).append(c)
    ordered = el['st']['ordered'] if el.get('st') and el['st']['ordered'] is not None else []
    slots = [by.get(k) for k in ordered]
    slots += [[c] for c in el['children'] if c['name'] in (None, 'ST')]
    return remove_trailing(slots)


def enc_complex(el, ec, v, sep, enc_child):
    if is_base(el['dt'], v) or el['dt'] is None:
        slots = [list(el['children'])]
    elif el['cls'] == 'Field' and el['dt'] == 'varies':
        by = {}
        for c in el['children']: by.setdefault(c['name'], []).append(c)
        slots = [by['VARIES_%d' % (i + 1)] for i in range(len(el['children']))]
        slots = remove_trailing(slots)
        slots += [[c] for c in el['children'] if c['name'] == c['dt']]
    else:
        slots = slots_generic(el)
    s = []
    for sl in slots:
        if sl: s.extend(enc_child(c, ec, v) for c in sl)
        else: s.append('')
    return sep.join(s)


def enc_component(c, ec, v): return enc_complex(c, ec, v, ec['SUBCOMPONENT'], lambda x, e, vv: enc_sub(x, e))
def enc_field(f, ec, v):
    if f['name'] in ('MSH_1', 'MSH_2'):
        return f['children'][0]['children'][0]['raw']
    return enc_complex(f, ec, v, ec['COMPONENT'], enc_component)


def enc_segment(seg, ec, v):
    by = {}
    for c in seg['children']: by.setdefault(c['name'], []).append(c)
    slots = [by.get(k) for k in seg['st']['ordered']]
    if seg['inf']:
        for i in range(seg['last_allowed'] + 1, seg['last'] + 1):
            slots.append(by.get('%s_%d' % (seg['name'], i)))
    slots += [[c] for c in seg['children'] if c['name'] in (None, 'ST')]
    slots = remove_trailing(slots)
    s = [seg['name']]
    for sl in slots:
        if sl is not None: s.append(ec['REPETITION'].join(enc_field(f, ec, v) for f in sl))
        else: s.append('')
    if seg['name'] == 'MSH' and len(s) > 1: s.pop(1)
    return ec['FIELD'].join(s)


def dump(el):
    if el['cls'] == 'SubComponent': return ('SC', el['name'], el['dt'], el.get('raw', el['enc']))
    return (el['cls'][0], el['name'], el.get('dt'), [dump(c) for c in el['children']])
