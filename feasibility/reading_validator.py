# Pure functional reading of validation.Validator.validate on refmodel trees (errors only; warnings omitted)
import reading_parse_encode as M
class VCrash(Exception): pass
def is_z(el):
    if el['cls']=='Segment': return M.valid_z_segment_name(el['name'])
    if el['cls']=='Field': return el['name'] is not None and M.valid_z_field_name(el['name'])
    return False
def is_unknown(el):
    if el['cls'] in ('Field','Component','SubComponent'): return el['name']==el['dt']
    return el['name'] is None
def load(name, kind, v):
    try: return M.load_ref(name, kind, v)
    except M.MErr: return None
def load_grp(el, v):
    import reading_message  # noqa
    try: return M.load_ref_tbl(el['name'], 'GROUPS' if el['cls']=='Group' else 'MESSAGES', v)
    except M.MErr: return None
def children_named(el, name):
    # el.children.get(child_name) -> proxy over indexes[NAME]; resolution through find_child_reference is case-insensitive
    return [c for c in el['children'] if c['name']==name.upper()]
def check_known(el, ref, v, errs, parent):
    if ref is None:
        ref = load(el['name'], el['cls'], v) if el['cls'] not in ('Group','Message') else load_grp(el, v)
        if ref is None:
            errs.append(('Invalid', el['name'])); raise VCrash('TypeError')
    if ref[0] in ('sequence','choice'):
        names = {c['name'] for c in el['children'] if not is_z(c)}
        valid = {c[0] for c in ref[1]}
        if not names <= valid: errs.append(('InvalidChildren', el['name'], tuple(sorted(map(str,names-valid)))))
        for cref in ref[1]:
            cname, card = cref[0], cref[2]
            if not resolvable(el, cname, v): continue
            kids = children_named(el, cname)
            mn, mx = card
            if len(kids) < mn: errs.append(('Missing', el['name'], cname))
            elif mx != -1 and len(kids) > mx: errs.append(('Limit', el['name'], cname))
            for k in kids: is_valid(k, cref[1], v, errs, el)
        for c in el['children']:
            if is_z(c): is_valid(c, None, v, errs, el)
    else:
        # table compliance and length produce warnings only, but index ref[4], ref[5]
        try: ref[4]; ref[5]
        except IndexError: raise VCrash('IndexError')
        if isinstance(ref[4], (tuple,list)):
            # load_reference(table,...) with an unhashable/alien key
            try: hash(ref[4])
            except TypeError: raise VCrash('TypeError')
        if not isinstance(ref[5], int): raise VCrash('TypeError')
        if el['dt'] == 'varies': return
        if el['dt'] != ref[2]: errs.append(('Datatype', parent['name'] if parent else None, el['name'], el['dt']))
        if not M.is_base(el['dt'], v) and el['dt'] is not None:
            st = load(el['dt'], 'Datatypes_Structs', v)
            if st is None: raise VCrash('ChildNotFound')
            is_valid(el, st, v, errs, parent)
def resolvable(el, cname, v):
    """el.children.get(child_name) raises (swallowed) when the name cannot be resolved by find_child_reference"""
    if el['cls']=='SubComponent': return False
    if el['cls'] in ('Group','Message'):
        if any(c['name']==cname for c in el['children']): return True
        sbn = el['st']['sbn'] if el.get('st') and el['st']['sbn'] is not None else None
        if sbn is not None and cname in sbn: return True
        if M.valid_z_segment_name(cname): return True
        lib=M.lib(v)
        if cname not in lib.SEGMENTS and cname not in lib.GROUPS: return False
        return not (el.get('lvl')==1)
    sbn = el['st']['sbn'] if el.get('st') and el['st']['sbn'] is not None else None
    if any(c['name']==cname for c in el['children']): return True
    if el['cls']=='Segment':
        if sbn is not None and cname in sbn: return True
        if el['inf'] and M.valid_child_name(cname, el['name']): return True
        return False
    if el['cls']=='Field':
        if M.is_base(el['dt'], v): return cname==el['dt']
        if el['dt']=='varies' and M.valid_child_name(cname,'varies'): return True
    if sbn is not None and cname in sbn: return True
    if cname in M.lib(v).DATATYPES and sbn is None: return True
    return False
def check_z(el, v, errs, parent):
    if el['cls']=='Field':
        if M.is_base(el['dt'], v) or el['dt']=='varies': return
        elif el['dt'] is not None:
            st = load(el['dt'],'Datatypes_Structs',v)
            if st is None: raise VCrash('ChildNotFound')
            check_known(el, ('sequence', st, el['dt'], None, None, -1), v, errs, parent)
    for c in el['children']: is_valid(c, None, v, errs, el)
def is_valid(el, ref, v, errs, parent):
    if is_unknown(el): errs.append(('Unknown', parent['name'] if parent else None, el['name'] or el.get('dt'))); return
    if is_z(el): return check_z(el, v, errs, parent)
    return check_known(el, ref, v, errs, parent)
def validate(el, v):
    errs=[]
    if el.get('st') is None: raise VCrash('AttributeError')     # Element.validate reads self.reference
    is_valid(el, el['st']['reference'], v, errs, None)
    return errs
