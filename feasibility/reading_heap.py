# Pure functional reading of core.py's mutation semantics (ElementList / parent pointers / traversal children)
# on a heap of nodes with identity.  Segment -> Field -> Component -> SubComponent (groups/messages analogous).
import reading_parse_encode as M
from reading_parse_encode import MErr, STRICT, TOL

CHILDCLS = {'Segment': 'Field', 'Field': 'Component', 'Component': 'SubComponent'}


class Heap:
    def __init__(self, ec):
        self.n = {}; self.next = 0; self.ec = ec

    def new(self, **kw):
        i = self.next; self.next += 1
        node = dict(id=i, parent=None, tparent=None, list=[], idx={}, tidx={}, st=None, dt=None, enc=None,
                    inf=False, last_allowed=0, last=0)
        node.update(kw); self.n[i] = node
        return i

    # ------------------------------------------------------------ allocation of parser-built trees
    def alloc(self, t, v, lvl):
        i = self.new(cls=t['cls'], name=t['name'], dt=t.get('dt'), st=t.get('st'), v=v, lvl=lvl,
                     enc=t.get('raw', t.get('enc')), inf=t.get('inf', False), last_allowed=t.get('last_allowed', 0),
                     last=t.get('last', 0), raw='raw' in t)
        for c in t.get('children', []):
            ci = self.alloc(c, v, lvl)
            self.n[ci]['parent'] = i
            self.n[i]['list'].append(ci); self.n[i]['idx'].setdefault(c['name'], []).append(ci)
        return i

    # ------------------------------------------------------------ structure helpers
    def sbn(self, p):
        st = self.n[p]['st']
        return st['sbn'] if st is not None and st['sbn'] is not None else None

    def find_child_reference(self, p, name):
        """returns {'name','ref'}; raises ChildNotFound / ChildNotValid"""
        P = self.n[p]; name = name.upper(); v = P['v']
        sbn = self.sbn(p)
        if P['cls'] == 'Segment':
            e = sbn.get(name) or self.bylong(p, name)
            if e is None:
                if P['inf'] and M.valid_child_name(name, P['name']):
                    dt = 'ST' if M.valid_z_field_name(name) else 'varies'
                    return {'name': name, 'ref': ('leaf', None, dt, None, None, -1)}
                if name in M.lib(v).FIELDS: raise MErr('ChildNotValid')
                raise MErr('ChildNotFound')
            return e
        if P['cls'] == 'Field':
            if M.is_base(P['dt'], v):
                if name == P['dt']: return {'name': P['dt'], 'ref': ('leaf', None, P['dt'], None, None, -1)}
                raise MErr('ChildNotFound')
            if P['dt'] == 'varies' and M.valid_child_name(name, 'varies'):
                return {'name': name, 'ref': ('leaf', None, 'varies', None, None, -1)}
        # SupportComplexDataType
        e = None
        if sbn is not None: e = sbn.get(name) or self.bylong(p, name)
        if e is None:
            if name not in M.lib(v).DATATYPES: raise MErr('ChildNotFound')
            if sbn is not None: raise MErr('ChildNotValid')
            e = {'name': name, 'ref': M.lib(v).DATATYPES[name]}
        return e

    def bylong(self, p, name):
        st = self.n[p]['st']
        if st is None or st['sbn'] is None: return None
        r = None
        for c in st['reference'][1]:
            try:
                if c[1][3] == name: r = st['sbn'][c[0]]      # later duplicates win (keyed by original name)
            except (IndexError, TypeError): pass
        return r

    def unknown(self, c):
        C = self.n[c]
        if C['cls'] in ('Field', 'Component', 'SubComponent'): return C['name'] == C['dt']
        return C['name'] is None

    def is_valid_child(self, p, c):
        P = self.n[p]; C = self.n[c]; v = P['v']; strict = P['lvl'] == STRICT
        if P['cls'] == 'Segment':
            if C['name'] is None and strict: return False
            if C['cls'] != 'Field': return False
            if C['name'] is not None:
                self.find_child_reference(p, C['name'])
                if not C['name'].upper().startswith(P['name'].upper()): return False
            return True
        if P['cls'] == 'SubComponent': return False
        if C['cls'] != CHILDCLS[P['cls']]: return False
        base = M.is_base(P['dt'], v)
        if not base:
            if P['dt'] in (None, 'varies') and M.valid_child_name(C['name'], 'varies'): return True
            if P['dt'] is None and M.valid_child_name(P['name'], 'varies') and self.unknown(c): return True
            if self.unknown(c) and strict: return False
            if not self.unknown(c) and P['dt'] and not M.valid_child_name(C['name'], P['dt']): return False
        else:
            if C['dt'] and C['dt'] != P['dt']: return False
        try:
            if C['name'] is not None and not M.is_base(C['name'], v):
                self.find_child_reference(p, C['name'])
        except MErr as e:
            if e.cls == 'ChildNotFound': return False
            raise
        return True

    # ------------------------------------------------------------ ElementList
    def can_add_child(self, p, c):
        P = self.n[p]; C = self.n[c]
        if self.is_valid_child(p, c):
            if C['parent'] != p and C['tparent'] != p:
                self.set_parent(c, p)
            else:
                if P['lvl'] == STRICT:
                    mn, mx = (P['st']['reps'] if P['st'] else {}).get(C['name'], (0, -1))
                    if len(P['idx'].get(C['name'], [])) + 1 > int(mx) and mx > -1: raise MErr('MaxChildLimitReached')
                if P['lvl'] != C['lvl']: raise MErr('OperationNotAllowed')
                if P['v'] != C['v']: raise MErr('OperationNotAllowed')
                return True
        else:
            raise MErr('ChildNotValid')
        return False

    def append(self, p, c):
        P = self.n[p]; C = self.n[c]
        if self.can_add_child(p, c):
            if C['parent'] == p:
                self.rm_tidx(p, c)
                P['list'].append(c); P['idx'].setdefault(C['name'], []).append(c)
            elif C['tparent'] == p:
                P['tidx'].setdefault(C['name'], []).append(c)

    def insert(self, p, index, c, bni):
        P = self.n[p]; C = self.n[c]
        if self.can_add_child(p, c):
            l = P['idx'].setdefault(C['name'], [])
            if bni == -1: l.append(c)
            else: l.insert(bni, c)
            P['list'].insert(index, c)

    def rm_tidx(self, p, c):
        P = self.n[p]; nm = self.n[c]['name']
        if nm in P['tidx'] and c in P['tidx'][nm]:
            P['tidx'][nm].remove(c)
            if not P['tidx'][nm]: del P['tidx'][nm]

    def rm_idx(self, p, c):
        P = self.n[p]; nm = self.n[c]['name']
        if nm in P['idx'] and c in P['idx'][nm]: P['idx'][nm].remove(c)

    def remove(self, p, c):
        if c is None: raise MErr('Crash')            # None.traversal_parent -> AttributeError
        if self.n[c]['tparent'] == p: self.rm_tidx(p, c)
        else:
            self.rm_idx(p, c)
            if c not in self.n[p]['list']: raise MErr('Crash')   # list.remove ValueError
            self.n[p]['list'].remove(c)

    def finder(self, p, name, index):
        P = self.n[p]
        try: return P['idx'][name][index]
        except (KeyError, IndexError):
            try: return P['tidx'][name][index]
            except (KeyError, IndexError): return None

    def child_at_index(self, p, name, index):
        child = self.finder(p, name, index)
        child_name = self.find_child_reference(p, name)['name'] if name is not None else None
        if child_name != name: child = self.finder(p, child_name, index)
        return child

    def replace_child(self, p, old, new):
        P = self.n[p]
        if self.n[old]['tparent'] == p:
            self.remove(p, old); self.append(p, new)
        else:
            li = P['list'].index(old); bi = P['idx'][self.n[old]['name']].index(old)
            self.remove(p, old); self.insert(p, li, new, bi)

    # ------------------------------------------------------------ Element
    def add(self, p, c):
        P = self.n[p]; C = self.n[c]
        if P['cls'] == 'SubComponent': raise MErr('OperationNotAllowed')
        if P['cls'] in ('Field', 'Component'):
            if P['name'] and M.is_base(P['dt'], P['v']) and len(P['list']) >= 1: raise MErr('MaxChildLimitReached')
        if P['cls'] == 'Component':
            if C['cls'] in ('Field', 'Component', 'SubComponent'):
                if C['name'] and C['name'] != C['dt']:
                    if not M.valid_child_name(C['name'], P['dt']): raise MErr('ChildNotValid')
            elif C['name']: raise MErr('ChildNotValid')
        self.append(p, c)
        if P['cls'] == 'Segment' and C['name'] and P['inf']:
            i = int(C['name'][4:])
            if i > P['last']: P['last'] = i

    def set_parent(self, c, p):
        C = self.n[c]; C['parent'] = p
        if p is not None:
            C['tparent'] = None
            self.add(p, c)

    def set_tparent(self, c, p):
        self.n[c]['tparent'] = p
        if p is not None: self.add(p, c)

    def to_traversal(self, e):
        E = self.n[e]
        if E['tparent'] is not None and E['parent'] is None:
            self.set_parent(e, E['tparent'])
            self.to_traversal(self.n[e]['parent'])
        else:
            E['tparent'] = None

    def parse_child(self, p, text, child_name, child_ref):
        P = self.n[p]; v = P['v']; lvl = P['lvl']
        if P['cls'] == 'Segment':
            t = M.parse_field(text, child_name, v, self.ec, lvl, child_ref, P['inf'])
        elif P['cls'] == 'Field':
            t = M.parse_component(text, child_name, child_ref[2] if child_ref is not None else 'ST', v, self.ec, lvl, child_ref)
        elif P['cls'] == 'Component':
            t = M.mk_subcomponent(child_name, child_ref[2] if child_ref is not None else 'ST', text, v, lvl, None, self.ec)
        return self.alloc(t, v, lvl)

    def children_set(self, p, name, value, index):
        """value: ('str', s) | ('el', id) | ('proxy', owner, name)"""
        if value[0] == 'proxy':
            lst = self.n[value[1]]['idx'].get(value[2], [])
            if not lst: raise MErr('Crash')
            value = ('str', self.to_er7(lst[0]))
        name = name.upper()
        ref = self.find_child_reference(p, name)
        child_ref, child_name = ref['ref'], ref['name']
        if value[0] == 'str': child = self.parse_child(p, value[1], child_name, child_ref)
        else: child = value[1]
        if self.n[child]['name'] != child_name: raise MErr('ChildNotValid')
        old = self.child_at_index(p, child_name, index)
        if old is None: self.append(p, child)
        else: self.replace_child(p, old, child)
        self.to_traversal(p)

    def create_element(self, p, name, traversal):
        P = self.n[p]
        ref = self.find_child_reference(p, name)
        cls = CHILDCLS[P['cls']]
        if cls == 'Field': t = M.mk_field(ref['name'], P['v'], P['lvl'], ref['ref'])
        elif cls == 'Component': t = M.mk_component(ref['name'], None, P['v'], P['lvl'], ref['ref'])
        else:
            t = M.mk_subcomponent(ref['name'], None, None, P['v'], P['lvl'], ref['ref'], self.ec)
        c = self.alloc(t, P['v'], P['lvl'])
        if traversal: self.set_tparent(c, p)
        else: self.set_parent(c, p)
        return c

    # proxy element resolution: list[0] / traversal_list[0] / create under traversal parent
    def proxy_element(self, p, pname):
        P = self.n[p]
        if P['idx'].get(pname): return P['idx'][pname][0]
        if P['tidx'].get(pname): return P['tidx'][pname][0]
        return self.create_element(p, pname, True)

    def proxy_name(self, p, name):
        """Element.__getattr__ -> children.get(name): returns the proxy's element_name (or raises)"""
        P = self.n[p]
        if name in P['idx'] or name in P['tidx']: return name.upper()
        try:
            return self.find_child_reference(p, name)['name'].upper()
        except MErr as e:
            if P['cls'] == 'Field' and e.cls == 'ChildNotFound':
                return self.positional(p, name)
            raise

    def positional(self, p, name):
        P = self.n[p]
        parts = name.upper().split('_')
        if not (3 <= len(parts) <= 4): raise MErr('ChildNotFound')
        try: comp = int(parts[2]); sub = int(parts[3]) if len(parts) == 4 else None
        except ValueError: raise MErr('ChildNotFound')
        if '%s_%s' % (parts[0], parts[1]) != P['name']: raise MErr('ChildNotFound')
        if M.is_base(P['dt'], P['v']):
            if sub is not None or comp != 1: raise MErr('ChildNotFound')
            return P['dt']
        if sub is not None: raise MErr('Unsupported')      # subcomponent paths not in this reading
        return self.proxy_name(p, '%s_%d' % (P['dt'], comp))

    # ------------------------------------------------------------ value assignment
    def set_value(self, e, text):
        E = self.n[e]; v = E['v']; lvl = E['lvl']
        if E['cls'] == 'SubComponent':
            E['enc'] = M.leaf_rt(E['dt'], text, v, lvl, self.ec) if text else ''
            self.to_traversal(e); return
        if E['cls'] == 'Field':
            kids = M.parse_components(text, E['dt'], v, self.ec, lvl, self.sbn(e))
        elif E['cls'] == 'Component':
            kids = M.parse_subcomponents(text, E['dt'], v, self.ec, lvl, self.sbn(e))
        else:
            raise MErr('Unsupported')
        if lvl == TOL and M.is_base(E['dt'], v) and len(kids) > 1: E['dt'] = None     # _set_datatype with no children yet
        E['list'] = []; E['idx'] = {}; E['tidx'] = {}
        for k in kids:
            self.add(e, self.alloc(k, v, lvl))

    # ------------------------------------------------------------ encoding
    def to_tree(self, e):
        E = self.n[e]
        t = dict(cls=E['cls'], name=E['name'], dt=E['dt'], st=E['st'], inf=E['inf'], last_allowed=E['last_allowed'], last=E['last'])
        if E['cls'] == 'SubComponent':
            t['enc'] = E['enc'] or ''
            if E.get('raw'): t['raw'] = E['enc']
        t['children'] = [self.to_tree(c) for c in E['list']]
        return t

    def to_er7(self, e):
        t = self.to_tree(e); v = self.n[e]['v']
        try:
            if t['cls'] == 'Segment': return M.enc_segment(t, self.ec, v)
            if t['cls'] == 'Field': return M.enc_field(t, self.ec, v)
            if t['cls'] == 'Component': return M.enc_component(t, self.ec, v)
            return M.enc_sub(t, self.ec)
        except KeyError:
            raise MErr('Crash')

    def dump(self, e):
        E = self.n[e]
        return (E['cls'][0], E['name'], E['dt'] if E['cls'] != 'Segment' else None,
                [self.dump(c) for c in E['list']],
                sorted((k, len(x)) for k, x in E['idx'].items() if x),
                sorted((k, len(x)) for k, x in E['tidx'].items() if x),
                [self.n[c]['parent'] == e for c in E['list']])
