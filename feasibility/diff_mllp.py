# usage: python diff_mllp.py <seed> <cases>  -- reading_mllp vs a live MLLPServer on loopback
import sys, socket, threading, time, random
from gen_common import *
from hl7apy.mllp import MLLPServer, AbstractHandler, AbstractErrorHandler
from hl7apy.parser import get_message_type
import reading_mllp as MM

class H(AbstractHandler):
    def __init__(self, msg, *a): super().__init__(msg); self.ev = ('handler', a[0], msg)
    def reply(self): return '\x0bR:' + repr(self.ev) + '\r\x1c\r'
class EH(AbstractErrorHandler):
    def __init__(self, exc, msg, *a): super().__init__(exc, msg); self.ev = ('err', type(exc).__name__, msg)
    def reply(self): return '\x0bR:' + repr(self.ev) + '\r\x1c\r'

def send(port, chunks, close_after):
    s = socket.create_connection(('127.0.0.1', port)); s.settimeout(3)
    try:
        for c in chunks: s.sendall(c); time.sleep(0.003)
        if close_after: s.shutdown(socket.SHUT_WR)
    except OSError: pass
    out = b''
    try:
        while True:
            d = s.recv(65536)
            if not d: break
            out += d
    except socket.timeout: out += b'<TIMEOUT>'
    except ConnectionResetError: pass
    s.close(); return out

if __name__ == '__main__':
    handlers = {'ADT^A01^ADT_A01': (H, 'ADT^A01^ADT_A01'), 'ORU^R01': (H, 'ORU^R01'), 'ERR': (EH,)}
    srv = MLLPServer('127.0.0.1', 0, handlers, timeout=0.6); port = srv.server_address[1]
    threading.Thread(target=srv.serve_forever, daemon=True).start()
    rnd = random.Random(int(sys.argv[1])); agree = dis = 0
    payloads = ['MSH|^~\\&|A|B|C|D|20200101||ADT^A01^ADT_A01|1|P|2.5\rPID|1', 'MSH|^~\\&|A|B|C|D|20200101||ADT^A02^ADT_A02|1|P|2.5\rPID|1',
                'MSH|^~\\&|A||||||ORU^R01|1\rOBX|1\rOBX|2', 'hello', 'MSH|^~\\&', 'MSH|^~\\&#|A', 'MSH|^~&|A', 'x\r\ry',
                'MSH|^~\\&|A|B|C|D|20200101||ADT^A01^ADT_A01\rPID|\x1cabc', '']
    frames = ['\x0b%s\r\x1c\r', '\x0b%s\x1c\r', '\x0b%s\r\x1c', '%s\r\x1c\r', '\x0b%s\r\x1c\rEXTRA', '\x0b%s\r\x1c\r\x0b%s\r\x1c\r']
    for it in range(int(sys.argv[2])):
        data = rnd.choice(frames).replace('%s', rnd.choice(payloads)).encode()
        if rnd.random() < .05: data = data[:5] + b'\xff\xfe' + data[5:]
        k = rnd.randint(1, 4); cuts = sorted(rnd.sample(range(1, max(2, len(data))), min(k - 1, max(0, len(data) - 1)))) if len(data) > 1 else []
        chunks = [data[a:b] for a, b in zip([0] + cuts, cuts + [len(data)])]
        got = send(port, chunks, rnd.random() < .5)
        preds = set()
        for k0 in (1, 2, 3):
            ev = MM.serve(data, k0, handlers, True, get_message_type)
            preds.add(repr(ev[0]) if ev[0][0] != 'close' else 'close')
        assert len(preds) == 1, ('model depends on k0', data)
        pred = preds.pop()
        obs = got[3:-3].decode() if got.startswith(b'\x0bR:') else ('close' if got == b'' else 'OTHER:' + repr(got))
        if obs == pred: agree += 1
        else:
            dis += 1
            if dis <= 5: print('DISAGREE', data, chunks[:3], obs[:100], pred[:100])
    print({'agree': agree, 'disagree': dis})
