# Pure functional reading of parser.parse_message / _split_msh / get_message_info / Message construction / Group+Message to_er7
import reading_parse_encode as M
from reading_parse_encode import MErr, STRICT, TOL
import re
WS = ' \t\n\r\x0b\x0c\x1c\x1d\x1e\x1f'
def lstrip(s):
    while s and s[0] in WS: s = s[1:]
    return s
def strip(s):
    s = lstrip(s)
    while s and s[-1] in WS: s = s[:-1]
    return s
SUPPORTED = ['2.1','2.2','2.3','2.3.1','2.4','2.5','2.5.1','2.6','2.7','2.8','2.8.1','2.8.2']

def split_msh(content):
    if not (content[:3] == 'MSH' and len(content) > 3 and content[3] not in WS):
        raise MErr('ParserError')
    fs = content[3]
    msh = content.split('\r', 1)[0]
    fields = msh.split(fs)
    seps = fields[1]                       # always exists: content[3] is the separator
    if len(seps) > len(set(seps)): raise MErr('InvalidEncodingChars')
    trunc = None
    if len(seps) == 4: comp, rep, esc, sub = seps
    elif len(seps) < 4: raise MErr('InvalidEncodingChars')
    elif len(seps) == 5:
        if len(fields) <= 11: raise MErr('Crash')          # fields[11] IndexError (F11)
        if fields[11] >= '2.7': comp, rep, esc, sub, trunc = seps
        else: raise MErr('InvalidEncodingChars')
    else: raise MErr('InvalidEncodingChars')
    ec = {'FIELD': fs, 'COMPONENT': comp, 'SUBCOMPONENT': sub, 'REPETITION': rep, 'ESCAPE': esc, 'SEGMENT': '\r', 'GROUP': '\r'}
    if trunc: ec['TRUNCATION'] = trunc
    return fields, ec

def get_message_type(content):
    fields, ec = split_msh(content)
    return strip(fields[8]) if len(fields) > 8 else None

def get_message_info(content):
    fields, ec = split_msh(content)
    structure = None
    if len(fields) > 8:
        mt = strip(fields[8]).split(ec['COMPONENT'])
        if len(mt) > 2: structure = mt[2]
        elif len(mt) > 1: structure = '%s_%s' % (mt[0], mt[1])
    version = None
    if len(fields) > 11:
        version = strip(fields[11]).split(ec['COMPONENT'])[0]
    return ec, structure, version

def valid_z_message_name(name):
    return name is not None and re.match(r'^z[a-z0-9]{2}_z[a-z0-9]{2}$', name, re.IGNORECASE) is not None

def mk_group(name, v, lvl, reference):
    nm = name.upper() if name is not None else None
    st = None
    if nm is not None:
        ref = reference if reference is not None else M.load_ref_tbl(nm, 'GROUPS', v)
        st = M.parse_structure(ref)
    if nm is None and lvl == STRICT: raise MErr('OperationNotAllowed')
    return {'cls': 'Group', 'name': nm, 'st': st, 'children': [], 'lvl': lvl}

def mk_message(name, v, lvl, default_version='2.5'):
    """only what parse_message needs: the constructor's own MSH is discarded by `m.children = children`,
       but the exceptions it can raise are kept"""
    if v is None: v = default_version
    if v not in SUPPORTED: raise MErr('UnsupportedVersion')
    nm = name.upper() if name is not None else None
    st = None
    if nm is not None:
        try:
            ref = M.load_ref_tbl(nm, 'MESSAGES', v)
        except MErr:
            if valid_z_message_name(name): ref = ('sequence', ())
            else: raise MErr('InvalidName')
        st = M.parse_structure(ref)
    if nm is None and lvl == STRICT: raise MErr('OperationNotAllowed')
    return {'cls': 'Message', 'name': nm, 'st': st, 'children': [], 'v': v, 'lvl': lvl}

def load_ref_tbl(name, tbl, v):
    try: return getattr(M.lib(v), tbl)[name]
    except KeyError: raise MErr('InvalidName')
M.load_ref_tbl = load_ref_tbl

def child_ref_for_group(parent, name, v, lvl, is_msg):
    """Group/Message.find_child_reference + the admission outcome"""
    st = parent['st']
    if st is not None and st['sbn'] is not None:
        if name in st['sbn']: return
    if M.valid_z_segment_name(name): return
    lib = M.lib(v)
    if name not in lib.SEGMENTS and name not in lib.GROUPS: raise MErr('ChildNotFound')
    zmsg = is_msg and valid_z_message_name(parent['name'])
    if lvl == STRICT and not zmsg: raise MErr('ChildNotValid')

def add_to_group(parent, child, v, lvl):
    if child['name'] is None and lvl == STRICT: raise MErr('ChildNotValid')
    if child['name'] is not None:
        child_ref_for_group(parent, child['name'], v, lvl, parent['cls'] == 'Message')
    if lvl == STRICT:
        reps = parent['st']['reps'] if parent['st'] else {}
        mn, mx = reps.get(child['name'], (0, -1))
        have = sum(1 for c in parent['children'] if c['name'] == child['name'])
        if have + 1 > int(mx) and mx > -1: raise MErr('MaxChildLimitReached')
    parent['children'].append(child)

def parse_segments_flat(text, v, ec, lvl):
    out = []
    for s in text.split('\r'):
        if len(s) > 0: out.append(M.parse_segment(strip(s), v, ec, lvl))
    return out

def parse_segments_grouped(text, v, ec, lvl, references):
    """reading_group_search with real segments/groups"""
    forest = []; stack = [(None, references)]; cur = []
    from reading_group_search import get_seg_ref, reps
    for s in text.split('\r'):
        if len(s) == 0: continue
        name = s[:3]
        n = len(stack)
        for x in range(n):
            ref, stack = get_seg_ref(name, stack)
            if ref is None:
                if cur: stack = stack[:-1]; cur = cur[:-1]
            else:
                top = stack[-1][0]
                if (not cur and top is not None) or (cur and top != cur[-1]['name']):
                    if cur:
                        cur_idx = [i for i, e in enumerate(stack) if e[0] == cur[-1]['name'] and e[1] == cur[-1]['st']['reference']][0]
                    else:
                        cur_idx = [i for i, e in enumerate(stack) if e[0] is None and e[1] == references][0]
                    for p in stack[cur_idx + 1:]:
                        g = mk_group(p[0], v, lvl, p[1])
                        if cur: add_to_group(cur[-1], g, v, lvl)
                        else: forest.append(g)
                        cur = cur + [g]
                elif cur and name in [c['name'] for c in cur[-1]['children']] and cur[-1]['st']['reps'][name][1] == 1:
                    g = mk_group(cur[-1]['name'], v, lvl, cur[-1]['st']['reference'])
                    if len(cur) > 1: add_to_group(cur[-2], g, v, lvl)
                    else: forest.append(g)
                    cur = cur[:-1] + [g]
                seg = M.parse_segment(strip(s), v, ec, lvl, ref)
                if cur: add_to_group(cur[-1], seg, v, lvl)
                else: forest.append(seg)
                break
    return forest

def parse_message(message, lvl, find_groups=True, default_version='2.5'):
    message = lstrip(message)
    ec, structure, version = get_message_info(message)
    try:
        m = mk_message(structure, version, lvl, default_version)
    except MErr as e:
        if e.cls != 'InvalidName': raise
        m = mk_message(None, version, lvl, default_version)
    if m['st'] is not None and find_groups:
        kids = parse_segments_grouped(message, m['v'], ec, lvl, m['st']['reference'])
    else:
        kids = parse_segments_flat(message, m['v'], ec, lvl)
    for k in kids: add_to_group(m, k, m['v'], lvl)
    m['ec'] = ec
    return m

def enc_group(g, ec, v, lvl):
    if lvl == STRICT:
        by = {}
        for c in g['children']: by.setdefault(c['name'], []).append(c)
        ordered = g['st']['ordered'] if g['st'] and g['st']['ordered'] is not None else []
        slots = M.remove_trailing([by.get(k) for k in ordered])
    else:
        slots = [[c] for c in g['children']]
    out = []
    for sl in slots:
        if sl:
            for c in sl:
                out.append(M.enc_segment(c, ec, v) if c['cls'] == 'Segment' else enc_group(c, ec, v, lvl))
    return '\r'.join(out)

def dump(el):
    if el['cls'] in ('Group', 'Message'): return (el['cls'][0], el['name'], [dump(c) for c in el['children']])
    return M.dump(el)
