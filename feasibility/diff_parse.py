# usage: python diff_parse.py <seed> <cases>   -- reading_parse_encode / reading_validator vs hl7apy, segment level
import sys, random, collections, re, traceback
from gen_common import *
from hl7apy.parser import parse_segment
import reading_parse_encode as M, reading_validator as V

def norm(msg):
    m = re.match(r"Missing required child (\S+)\.(\S+)$", msg)
    if m: return ('Missing', m.group(1), m.group(2))
    m = re.match(r"Child limit exceeded (\S+)\.(\S+)$", msg)
    if m: return ('Limit', m.group(1), m.group(2))
    m = re.match(r"Invalid children detected for <\w+ (\S*?)( .*)?>: \[(.*)\]$", msg)
    if m: return ('InvalidChildren', m.group(1) or None, tuple(sorted(x.strip().strip("'") for x in m.group(3).split(','))))
    m = re.match(r"Unknown element found: <\w+ ?(\S*?)( .*)?>\.<(\w+) ?(of type )?(\S*?)( .*)?>$", msg)
    if m: return ('Unknown', m.group(1) or None, None if m.group(5) in ('', 'None') else m.group(5))
    m = re.match(r"Datatype (\S+) is not correct for (\S+)\.(\S+) \(it must be (.*)\)$", msg)
    if m: return ('Datatype', m.group(2), m.group(3), None if m.group(1) == 'None' else m.group(1))
    return ('OTHER', msg)

def impl_validate(e):
    from hl7apy.exceptions import HL7apyException
    try: return ('ok', sorted(str(norm(str(x))) for x in e.validate(return_errors=True).errors))
    except HL7apyException as x: return ('exc', type(x).__name__)
    except Exception: return ('crash',)

def model_validate(m, v):
    try: return ('ok', sorted(map(str, V.validate(m, v))))
    except V.VCrash as x: return ('exc', 'ChildNotFound') if str(x) == 'ChildNotFound' else ('crash',)

if __name__ == '__main__':
    rnd = random.Random(int(sys.argv[1])); st = collections.Counter(); ex = {}
    for it in range(int(sys.argv[2])):
        v = rnd.choice(VERSIONS); lib = hl7apy.load_library(v)
        t = gen_segment_line(rnd, lib)
        if rnd.random() < .05: t = t.lower() if rnd.random() < .5 else t[:3] + '^' + t[4:]
        for lvl in (2, 1):
            def fi():
                e = parse_segment(t, version=v, validation_level=lvl, encoding_chars=EC)
                return (e.to_er7(EC), impl_dump(e), impl_validate(e))
            a = impl_outcome(fi)
            try:
                m = M.parse_segment(t, v, EC, lvl); b = ('ok', (M.enc_segment(m, EC, v), M.dump(m), model_validate(m, v)))
            except M.MErr as x: b = ('exc', x.cls)
            except Exception: b = ('modelcrash', traceback.format_exc().splitlines()[-2:])
            if a == b: st[('agree', lvl, a[0] if a[0] == 'ok' else a[1])] += 1
            else: st[('DISAGREE', lvl)] += 1; ex.setdefault((lvl, a[0], b[0]), (v, t[:200]))
    for k in sorted(st, key=str): print(k, st[k])
    for k, e in ex.items(): print(k, e)
