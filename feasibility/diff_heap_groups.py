import sys, random, collections, traceback
sys.path.insert(0,'/repo')
import hl7apy
from hl7apy.core import *
from hl7apy.exceptions import *
sys.path.insert(0, "/verif/feasibility")
import reading_parse_encode as M, reading_heap_groups as HM2
EC=dict(hl7apy.consts.DEFAULT_ENCODING_CHARS); V='2.5'
def idump(el):
    return (el.classname[0], el.name, el.datatype if isinstance(el,(Field,Component,SubComponent)) else None,
            [idump(c) for c in el.children.list],
            sorted((k,len(x)) for k,x in el.children.indexes.items() if x),
            sorted((k,len(x)) for k,x in el.children.traversal_indexes.items() if x),
            [c.parent is el for c in el.children.list])
def classify(e):
    if isinstance(e,HL7apyException): return type(e).__name__
    if isinstance(e,ValueError): return 'ValueError'
    return 'Crash'
SEGS=['PID','NK1','PV1','EVN','OBX','ZZZ','IN1','SPM']
GROUPS=['ADT_A01_INSURANCE','ADT_A01_PROCEDURE']
GSEG={'ADT_A01_INSURANCE':['IN1','IN2','ROL'],'ADT_A01_PROCEDURE':['PR1','ROL']}
st=collections.Counter(); ex={}
def run(seed,lvl,nops):
    rnd=random.Random(seed)
    I=[Message('ADT_A01',version=V,validation_level=lvl), Message('ADT_A01',version=V,validation_level=lvl)]
    for m in I: m.msh.msh_7='20200101'
    H=HM2.Heap2(EC); Mh=[H.new_message('ADT_A01',V,lvl,'20990101010101') for _ in range(2)]
    for m in Mh: H.children_set(H.n[m]['idx']['MSH'][0],'msh_7',('str','20200101'),0)
    hist=[]
    for step in range(nops):
        op=rnd.choice(['set','set','setidx','addseg','addnew','delname','delidx','copy','tset','gtset','addgroup','setgrp','readg','setel'])
        s=rnd.choice(SEGS); sl=s.lower(); i=rnd.randrange(3); n=rnd.randrange(1,9)
        msgs=[k for k,x in enumerate(I) if isinstance(x,Message)]; mh=rnd.choice(msgs)
        txt='%s|%d'%(s,n) if rnd.random()<.9 else 'PID|9'
        def both(fi,fm):
            try: ri=('ok',fi())
            except Exception as e: ri=('exc',classify(e))
            try: rm=('ok',fm())
            except M.MErr as e: rm=('exc',e.cls)
            return ri,rm
        if op=='set':
            desc='h%d.%s=%r'%(mh,sl,txt); r=both(lambda: setattr(I[mh],sl,txt), lambda: H.children_set(Mh[mh],sl,('str',txt),0))
        elif op=='setidx':
            desc='h%d.%s[%d]=%r'%(mh,sl,i,txt); r=both(lambda: getattr(I[mh],sl).__setitem__(i,txt), lambda: H.children_set(Mh[mh],H.proxy_name(Mh[mh],sl),('str',txt),i))
        elif op=='addseg':
            desc='h%d=h%d.add_segment(%r)'%(len(I),mh,s)
            def fi(): x=I[mh].add_segment(s); I.append(x)
            def fm(): x=H.create_element(Mh[mh],s,False); Mh.append(x)
            r=both(fi,fm)
            while len(I)>len(Mh): I.pop()
            while len(Mh)>len(I): Mh.pop()
        elif op=='addnew':
            l2=lvl if rnd.random()<.85 else 3-lvl
            desc='h%d=Segment(%r,lvl%d); h%d.add(it)'%(len(I),s,l2,mh)
            def fi():
                x=Segment(s,version=V,validation_level=l2); x.value=txt if txt[:3]==s else s+'|1'; I.append(x); I[mh].add(x)
            def fm():
                x=H.alloc(M.parse_segment(txt if txt[:3]==s else s+'|1',V,EC,l2),V,l2); Mh.append(x); H.add(Mh[mh],x)
            r=both(fi,fm)
            while len(I)>len(Mh): I.pop()
            while len(Mh)>len(I): Mh.pop()
        elif op=='setel':
            segs=[k for k,x in enumerate(I) if isinstance(x,Segment)]
            if not segs: continue
            sh=rnd.choice(segs); nm=I[sh].name.lower(); desc='h%d.%s=h%d'%(mh,nm,sh)
            r=both(lambda: setattr(I[mh],nm,I[sh]), lambda: H.children_set(Mh[mh],nm,('el',Mh[sh]),0))
        elif op=='delname':
            desc='del h%d.%s'%(mh,sl); r=both(lambda: delattr(I[mh],sl), lambda: H.remove(Mh[mh],H.child_at_index(Mh[mh],sl,0)))
        elif op=='delidx':
            desc='del h%d.%s[%d]'%(mh,sl,i)
            def fm():
                pn=H.proxy_name(Mh[mh],sl); lst=H.n[Mh[mh]]['idx'].get(pn,[])
                if i>=len(lst): raise M.MErr('Crash')
                H.remove(Mh[mh],lst[i])
            r=both(lambda: getattr(I[mh],sl).__delitem__(i), fm)
        elif op=='copy':
            oh=rnd.choice(msgs); desc='h%d.%s=h%d.%s'%(mh,sl,oh,sl)
            r=both(lambda: setattr(I[mh],sl,getattr(I[oh],sl)), lambda: H.children_set(Mh[mh],sl,('proxy',Mh[oh],H.proxy_name(Mh[oh],sl)),0))
        elif op=='tset':
            if s=='ZZZ': f='zzz_2'
            else: f='%s_1'%sl
            desc='h%d.%s.%s=%r'%(mh,sl,f,str(n))
            def fm():
                el=H.proxy_element(Mh[mh],H.proxy_name(Mh[mh],sl)); H.children_set(el,f,('str',str(n)),0)
            r=both(lambda: setattr(getattr(I[mh],sl),f,str(n)), fm)
        elif op=='gtset':
            g=rnd.choice(GROUPS); gs=rnd.choice(GSEG[g]); f='%s_1'%gs.lower()
            desc='h%d.%s.%s.%s=%r'%(mh,g.lower(),gs.lower(),f,str(n))
            def fm():
                ge=H.proxy_element(Mh[mh],H.proxy_name(Mh[mh],g.lower())); se=H.proxy_element(ge,H.proxy_name(ge,gs.lower())); H.children_set(se,f,('str',str(n)),0)
            r=both(lambda: setattr(getattr(getattr(I[mh],g.lower()),gs.lower()),f,str(n)), fm)
        elif op=='readg':
            g=rnd.choice(GROUPS); gs=rnd.choice(GSEG[g]); f='%s_1'%gs.lower()
            desc='read h%d.%s.%s.%s.value'%(mh,g.lower(),gs.lower(),f)
            def fm():
                ge=H.proxy_element(Mh[mh],H.proxy_name(Mh[mh],g.lower())); se=H.proxy_element(ge,H.proxy_name(ge,gs.lower())); fe=H.proxy_element(se,H.proxy_name(se,f)); return H.to_er7(fe)
            r=both(lambda: getattr(getattr(getattr(I[mh],g.lower()),gs.lower()),f).value, fm)
        elif op=='addgroup':
            g=rnd.choice(GROUPS); desc='h%d=h%d.add_group(%r)'%(len(I),mh,g)
            def fi(): x=I[mh].add_group(g); I.append(x)
            def fm(): x=H.create_element(Mh[mh],g,False); Mh.append(x)
            r=both(fi,fm)
            while len(I)>len(Mh): I.pop()
            while len(Mh)>len(I): Mh.pop()
        elif op=='setgrp':
            g=rnd.choice(GROUPS); gt='\r'.join('%s|%d'%(x,n) for x in GSEG[g][:rnd.randint(1,3)]*rnd.randint(1,2))
            desc='h%d.%s=%r'%(mh,g.lower(),gt)
            r=both(lambda: setattr(I[mh],g.lower(),gt), lambda: H.children_set(Mh[mh],g.lower(),('str',gt),0))
        hist.append(desc); ri,rm=r
        if ri[0]=='ok' and op!='readg': ri=('ok',None)
        if rm[0]=='ok' and op!='readg': rm=('ok',None)
        st[('op',op,ri[0] if ri[0]=='ok' else ri[1])]+=1
        def obs_i():
            out=[]
            for x in I:
                try: e=x.to_er7(EC)
                except Exception as ee: e='EXC:'+classify(ee)
                out.append((idump(x),e))
            return out
        def obs_m():
            out=[]
            for x in Mh:
                try: e=H.to_er7(x)
                except M.MErr as ee: e='EXC:'+ee.cls
                out.append((H.dump(x),e))
            return out
        oi=obs_i(); om=obs_m()
        if ri!=rm or oi!=om:
            kind=('outcome',op,ri,rm) if ri!=rm else ('state',op,ri)
            st[('DIS',)+kind[:2]]+=1
            if kind not in ex:
                d=[(a,b) for a,b in zip(oi,om) if a!=b][:1]
                ex[kind]=(lvl,list(hist)[-5:],str(d)[:900])
            return
    st[('agree',lvl)]+=1
for s in range(int(sys.argv[2])):
    for lvl in (2,1):
        try: run(int(sys.argv[1])*100000+s,lvl,12)
        except Exception as e: st['harness-crash']+=1; ex.setdefault('harness-crash',traceback.format_exc()[-900:])
for k in sorted(st,key=str):
    print(k,st[k])
for k,e in list(ex.items())[:8]: print(k,'\n   ',str(e)[:1300])
