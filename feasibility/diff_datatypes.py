# usage: python diff_datatypes.py [quick]  -- reading_datatypes vs hl7apy datatype layer (STRICT) and escape
import sys, itertools, collections, random
from gen_common import *
from hl7apy.factories import datatype_factory
from hl7apy.exceptions import HL7apyException
from hl7apy.consts import DEFAULT_ENCODING_CHARS_27 as EC27
import reading_datatypes as D

def impl(dt, s, v='2.5'):
    try: return ('ok', datatype_factory(dt, s, v, 1).to_er7(EC))
    except ValueError: return ('rej', 'ValueError')
    except HL7apyException as e: return ('rej', type(e).__name__)

def model(dt, s):
    try:
        return ('ok', {'DT': D.accept_DT, 'TM': D.accept_TM, 'DTM': D.accept_DTM,
                       'NM': lambda x: D.accept_NM(x, True), 'SI': lambda x: D.accept_SI(x, True)}[dt](s))
    except D.Reject as r: return ('rej', r.kind)

if __name__ == '__main__':
    quick = len(sys.argv) > 1
    st = collections.Counter(); ex = {}
    def cmp(dt, s):
        a = impl(dt, s); b = model(dt, s); st[(dt, 'n')] += 1
        if a != b: st[(dt, 'DISAGREE')] += 1; ex.setdefault((dt, a[0], b[0]), (s, a, b))
    for dt, maxn in (('DT', 6), ('TM', 6), ('DTM', 5), ('NM', 6), ('SI', 5)):
        for n in range(1, (maxn - 1 if quick else maxn) + 1):
            for t in itertools.product('019.+- x', repeat=n): cmp(dt, ''.join(t))
    for dt, maxn in (('NM', 4), ('SI', 4), ('TM', 3)):
        for n in range(1, (maxn - 1 if quick else maxn) + 1):
            for t in itertools.product('01eE_.+-nNaAiIfF \n', repeat=n): cmp(dt, ''.join(t))
    for h in range(0, 30):
        for m in range(0, 62):
            cmp('TM', '%02d%02d' % (h, m))
            for sec in (0, 1, 59, 60, 61, 62): cmp('TM', '%02d%02d%02d' % (h, m, sec))
    for sign in '+-':
        for hh in range(0, 20):
            for mm in range(0, 70, 7):
                o = '%s%02d%02d' % (sign, hh, mm)
                for b in ('12', '1230', '123045', '123045.1', '123045.1234', '123045.12345'): cmp('TM', b + o)
                for b in ('2020', '202001', '20200101', '2020010112', '202001011230', '20200101123045', '20200101123045.123'): cmp('DTM', b + o)
    for y in (1, 999, 1000, 1900, 2000, 2023, 2024, 2100, 9999):
        for m in range(0, 14):
            for d in range(0, 33):
                for dt, suf in (('DT', ''), ('DTM', ''), ('DTM', '23')): cmp(dt, '%04d%02d%02d%s' % (y, m, d, suf))
            cmp('DT', '%04d%02d' % (y, m))
    rnd = random.Random(3)
    for _ in range(2000 if quick else 20000):
        s = ''.join(rnd.choice('0123456789.+-eE_ ') for _ in range(rnd.randint(1, 20)))
        for dt in ('NM', 'SI', 'DTM', 'TM'): cmp(dt, s)
    for s in ['12+0100+0100', '0.0000001', '1E5', '1e-7', '-0', '00.10', '1_0', '_1', '1__0', 'NaN', 'nan12', '-Infinity',
              '12345678901234567', '0.1234567890123456', '9' * 17, '1E+16', ' 12 ', '1 2', '1.', '.', '.5', 'e5', '1e+-1', '202011 1']:
        for dt in ('NM', 'SI', 'TM', 'DTM', 'DT'): cmp(dt, s)
    # escape
    n = bad = 0
    for v, ec, letters, wt in (('2.5', EC, 'HNFSTRE', False), ('2.7', EC27, 'HNFSTREL', True), ('2.7', EC, 'HNFSTREL', True)):
        ST = hl7apy.load_library(v).ST
        alpha = [ec['ESCAPE'], '|', '^', '~', '&', '#', 'H', 'E', 'L', 'a']
        for k in range(0, 5 if quick else 6):
            for t in itertools.product(alpha, repeat=k):
                s = ''.join(t); n += 1
                if ST(s).to_er7(ec) != D.escape(s, ec, letters, wt): bad += 1; ex.setdefault('escape', (v, s))
    punct = '!"#$%&()*+,/:;<=>?@[]^{}~|\\'
    for it in range(3000):
        cs = rnd.sample(punct, 6); ec = dict(FIELD=cs[0], COMPONENT=cs[1], REPETITION=cs[2], ESCAPE=cs[3], SUBCOMPONENT=cs[4])
        if rnd.random() < .5: ec['TRUNCATION'] = cs[5]
        for v, letters, wt in (('2.3', 'HNFSTRE', False), ('2.8', 'HNFSTREL', True)):
            s = ''.join(rnd.choice(cs + list('HNFSTREL') + ['x']) for _ in range(rnd.randint(0, 12))); n += 1
            if hl7apy.load_library(v).ST(s).to_er7(ec) != D.escape(s, ec, letters, wt): bad += 1; ex.setdefault('escape', (v, ec, s))
    for k in sorted(st, key=str): print(k, st[k])
    print('escape strings', n, 'disagreements', bad)
    for k, e in ex.items(): print(k, e)
