# Shared throw-away generators used by the diff_*.py feasibility drivers (round 0).
import sys, random, collections
sys.path.insert(0, '/repo'); sys.path.insert(0, '/verif/feasibility')
import hl7apy
from hl7apy.core import Group, Segment, Field, Component, SubComponent

EC = dict(hl7apy.consts.DEFAULT_ENCODING_CHARS)
VERSIONS = sorted(hl7apy.SUPPORTED_LIBRARIES)

LEAF = {'DT': ['20200101', '2020', '202013', 'x'], 'DTM': ['20200101', '202001011230+0100', '20209999'],
        'TM': ['1200', '2500', '120000.12'], 'NM': ['1', '1.5', 'abc', '-3', '01'], 'SI': ['1', '12345', 'x'],
        'ST': ['abc', 'a\\F\\b', 'a\\b', 'X' * 250], 'ID': ['A', 'Y'], 'IS': ['A', 'B' * 30], 'TN': ['555-1234', 'zz']}


def okseg(lib, n):
    r = lib.SEGMENTS.get(n)
    return r is not None and r[0] == 'sequence' and len(r) > 1 and bool(r[1])


def leaf(rnd, dt):
    if rnd.random() < .1: return rnd.choice(['', ' ', '  x ', 'a b'])
    return rnd.choice(LEAF.get(dt, ['q', 'r s']))


def gen_ref(rnd, ref, depth):
    """random text for a field (depth 0) / component (1) reference, with surplus and blank entries"""
    if ref is None: return 'n'
    if ref[0] == 'leaf' or not ref[1] or depth >= 2:
        t = leaf(rnd, ref[2])
        if rnd.random() < .08 and depth < 2: t += '^&'[depth] + 'extra'
        return t
    sep = '^&'[depth]
    n = len(ref[1]); k = rnd.randint(1, min(n + (2 if rnd.random() < .15 else 0), 8))
    parts = []
    for j in range(k):
        if j < n and rnd.random() < .6: parts.append(gen_ref(rnd, ref[1][j][1], depth + 1))
        elif j >= n: parts.append('over%d' % j)
        else: parts.append(rnd.choice(['', '', ' ']))
    return sep.join(parts)


def gen_segment_line(rnd, lib, sname=None, ref=None):
    if sname is None:
        if rnd.random() < .07: sname, ref = rnd.choice(['ZXX', 'Z1A', 'zab']), ('sequence', ())
        else:
            sname = rnd.choice([s for s in lib.SEGMENTS if okseg(lib, s) and s != 'MSH']); ref = lib.SEGMENTS[sname]
    n = len(ref[1]); k = rnd.randint(1, max(1, n) + (3 if rnd.random() < .15 else 0))
    fs = []
    for i in range(k):
        if i < n and rnd.random() < .5:
            reps = [gen_ref(rnd, ref[1][i][1], 0) for _ in range(1 if rnd.random() < .75 else rnd.randint(2, 3))]
            fs.append('~'.join(reps))
        elif i >= n: fs.append(rnd.choice(['beyond', 'b^c&d', '']))
        else: fs.append(rnd.choice(['', '', ' ']))
    return sname + '|' + '|'.join(fs)


def instance_names(ref, mode):
    """segment names of a structure instance: 'req' (required only), 'all', 'rep2' (repeatables twice)"""
    out = []
    for name, cref, (mn, mx), kind in ref[1]:
        n = 1 if (mode == 'all' or mn >= 1) else 0
        if mode == 'rep2': n = 2 if (mx == -1 or mx > 1) else 1
        for _ in range(n):
            if kind == 'SEG': out.append(name)
            else: out.extend(instance_names(cref, mode))
    return out


def msh_line(mname, v, ecs='^~\\&'):
    p = mname.split('_')
    return 'MSH|%s|A|B|C|D|20200101||%s^%s^%s|1|P|%s' % (ecs, p[0], p[1] if len(p) > 1 else '', mname, v)


def impl_tree(el):
    """forest of names only"""
    return [(c.name, impl_tree(c)) if isinstance(c, Group) else c.name for c in el.children]


_RAW = [False]


def impl_dump(el):
    """(class initial, name, datatype, children) with leaf encodings; MSH-1/MSH-2 leaves raw"""
    if isinstance(el, SubComponent):
        if _RAW[0]: return ('SC', el.name, el.datatype, el.value.value if hasattr(el.value, 'value') else el.value)
        return ('SC', el.name, el.datatype, el.to_er7(EC))
    if isinstance(el, Group): return (el.classname[0], el.name, [impl_dump(c) for c in el.children])
    if isinstance(el, Field) and el.name in ('MSH_1', 'MSH_2'):
        _RAW[0] = True
        try: return ('F', el.name, el.datatype, [impl_dump(c) for c in el.children])
        finally: _RAW[0] = False
    return (el.classname[0], el.name, el.datatype if isinstance(el, (Field, Component)) else None,
            [impl_dump(c) for c in el.children])


def impl_outcome(f):
    from hl7apy.exceptions import HL7apyException
    try: return ('ok', f())
    except HL7apyException as e: return ('exc', type(e).__name__)
    except ValueError: return ('exc', 'ValueError')
    except Exception: return ('exc', 'Crash')
