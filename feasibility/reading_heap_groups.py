# Extension of the heap reading to Group / Message parents (children: Segment | Group)
import reading_parse_encode as M, reading_message as G
from reading_parse_encode import MErr, STRICT, TOL
import reading_heap as HM

class Heap2(HM.Heap):
    def is_grp(self, p): return self.n[p]['cls'] in ('Group', 'Message')

    def grp_child_ref(self, p, name):
        P = self.n[p]; name = name.upper(); v = P['v']
        sbn = self.sbn(p)
        if sbn is not None and name in sbn:
            # class of the child from the structure row
            for c in P['st']['reference'][1]:
                if c[0] == name or name.startswith(c[0] + '_'):
                    pass
            kind = None
            cnt = {}
            for c in P['st']['reference'][1]:
                k = c[0] if cnt.get(c[0], 0) == 0 else '%s_%d' % (c[0], cnt[c[0]])
                cnt[c[0]] = cnt.get(c[0], 0) + 1
                if k == name: kind = 'Segment' if c[3] == 'SEG' else 'Group'
            return {'name': name, 'ref': sbn[name]['ref'], 'cls': kind}
        if M.valid_z_segment_name(name): return {'name': name, 'ref': ('sequence', ()), 'cls': 'Segment'}
        lib = M.lib(v)
        if name in lib.SEGMENTS: e = {'name': name, 'ref': lib.SEGMENTS[name], 'cls': 'Segment'}
        elif name in lib.GROUPS: e = {'name': name, 'ref': lib.GROUPS[name], 'cls': 'Group'}
        else: raise MErr('ChildNotFound')
        zmsg = P['cls'] == 'Message' and G.valid_z_message_name(P['name'])
        if P['lvl'] == STRICT and not zmsg: raise MErr('ChildNotValid')
        return e

    def find_child_reference(self, p, name):
        if self.is_grp(p): return self.grp_child_ref(p, name)
        return super().find_child_reference(p, name)

    def is_valid_child(self, p, c):
        if not self.is_grp(p): return super().is_valid_child(p, c)
        P = self.n[p]; C = self.n[c]
        if C['name'] is None and P['lvl'] == STRICT: return False
        if C['cls'] not in ('Segment', 'Group'): return False
        if C['name'] is not None: self.grp_child_ref(p, C['name'])
        return True

    def add(self, p, c):
        if self.is_grp(p): return self.append(p, c)
        return super().add(p, c)

    def alloc(self, t, v, lvl):
        if t['cls'] in ('Group', 'Message'):
            i = self.new(cls=t['cls'], name=t['name'], st=t['st'], v=v, lvl=lvl)
            for c in t['children']:
                ci = self.alloc(c, v, lvl); self.n[ci]['parent'] = i
                self.n[i]['list'].append(ci); self.n[i]['idx'].setdefault(c['name'], []).append(ci)
            return i
        return super().alloc(t, v, lvl)

    def parse_child(self, p, text, child_name, child_ref):
        if not self.is_grp(p): return super().parse_child(p, text, child_name, child_ref)
        P = self.n[p]; v = P['v']; lvl = P['lvl']
        ref = self.grp_child_ref(p, child_name)
        if ref['cls'] == 'Group':
            g = G.mk_group(child_name, v, lvl, ref['ref'])
            kids = G.parse_segments_grouped(text, v, self.ec, lvl, ref['ref'])
            gi = self.alloc(g, v, lvl)
            # g.value = text -> children = kids, added one by one
            for k in kids: self.append(gi, self.alloc(k, v, lvl))
            return gi
        reference = child_ref if text[:3] == child_name else None
        return self.alloc(M.parse_segment(text, v, self.ec, lvl, reference), v, lvl)

    def create_element(self, p, name, traversal):
        if not self.is_grp(p): return super().create_element(p, name, traversal)
        P = self.n[p]; ref = self.grp_child_ref(p, name)
        if ref['cls'] == 'Segment': t = M.mk_segment(ref['name'], P['v'], P['lvl'], ref['ref'])
        else: t = G.mk_group(ref['name'], P['v'], P['lvl'], ref['ref'])
        c = self.alloc(t, P['v'], P['lvl'])
        if traversal: self.set_tparent(c, p)
        else: self.set_parent(c, p)
        return c

    def new_message(self, name, v, lvl, now):
        m = G.mk_message(name, v, lvl)
        mi = self.alloc(m, m['v'], lvl)
        msh_ref = m['st']['sbn']['MSH']['ref'] if m['st'] and m['st']['sbn'] and 'MSH' in m['st']['sbn'] else None
        seg = self.alloc(M.mk_segment('MSH', m['v'], lvl, msh_ref), m['v'], lvl)
        self.children_set(mi, 'msh', ('el', seg), 0)
        e = self.ec
        for nm, txt in (('msh_1', e['FIELD']), ('msh_2', e['COMPONENT'] + e['REPETITION'] + e['ESCAPE'] + e['SUBCOMPONENT'])):
            f = self.alloc(M.parse_field(txt, nm.upper(), m['v'], e, lvl, None, False), m['v'], lvl)
            self.children_set(seg, nm, ('el', f), 0)
        self.children_set(seg, 'msh_7', ('str', now), 0)
        self.children_set(seg, 'msh_12', ('str', m['v']), 0)
        return mi

    def to_tree(self, e):
        E = self.n[e]
        if E['cls'] in ('Group', 'Message'):
            return dict(cls=E['cls'], name=E['name'], st=E['st'], children=[self.to_tree(c) for c in E['list']])
        return super().to_tree(e)

    def to_er7(self, e):
        E = self.n[e]
        if E['cls'] in ('Group', 'Message'):
            try: return G.enc_group(self.to_tree(e), self.ec, E['v'], E['lvl'])
            except KeyError: raise MErr('Crash')
        return super().to_er7(e)

    def dump(self, e):
        E = self.n[e]
        if E['cls'] in ('Group', 'Message'):
            return (E['cls'][0], E['name'], None, [self.dump(c) for c in E['list']],
                    sorted((k, len(x)) for k, x in E['idx'].items() if x),
                    sorted((k, len(x)) for k, x in E['tidx'].items() if x),
                    [self.n[c]['parent'] == e for c in E['list']])
        return super().dump(e)
