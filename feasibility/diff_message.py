# usage: python diff_message.py <seed> <cases>  -- reading_message (+groups, validator) vs hl7apy.parse_message
import sys, random, collections, traceback
from gen_common import *
from hl7apy.parser import parse_message, get_message_type
import reading_parse_encode as M, reading_message as G
from diff_parse import impl_validate, model_validate

def mutate(rnd, t):
    s = list(t)
    for _ in range(rnd.randint(1, 2)):
        i = rnd.randrange(min(len(s), 70)); op = rnd.random(); c = rnd.choice('|^~\\&#\r MSH2.57Z_1')
        if op < .35: s[i] = c
        elif op < .7: del s[i]
        else: s.insert(i, c)
    return ''.join(s)

if __name__ == '__main__':
    rnd = random.Random(int(sys.argv[1])); st = collections.Counter(); ex = {}
    for it in range(int(sys.argv[2])):
        v = rnd.choice(VERSIONS); lib = hl7apy.load_library(v)
        mname = rnd.choice(list(lib.MESSAGES)); ref = lib.MESSAGES[mname]
        if ref[0] != 'sequence': continue
        try: names = instance_names(ref, rnd.choice(['req', 'all', 'rep2']))
        except Exception: continue
        if not names or names[0] != 'MSH' or any(not okseg(lib, n) for n in names): st['skip'] += 1; continue
        r = rnd.random()
        if r < .15 and len(names) > 2: del names[rnd.randrange(1, len(names))]
        elif r < .3: names.insert(rnd.randint(1, len(names)), rnd.choice(names[1:] or ['PID']))
        elif r < .5:
            pool = [n for n in lib.SEGMENTS if okseg(lib, n) and n != 'MSH'] + ['ZZZ', 'ZZZ', 'XXX']
            for _ in range(rnd.randint(1, 3)): names.insert(rnd.randint(1, len(names)), rnd.choice(pool))
        ecs = '^~\\&' if (v < '2.7' or rnd.random() < .5) else '^~\\&#'
        t = '\r'.join(msh_line(mname, v, ecs) if s == 'MSH' else s + '|' + rnd.choice(['1', '1|a^b', '|x~y', '']) for s in names)
        t += rnd.choice(['', '\r'])
        if rnd.random() < .3: t = mutate(rnd, t)
        for lvl in (2, 1):
            for fg in (True, False):
                def fi():
                    m = parse_message(t, validation_level=lvl, find_groups=fg)
                    return (m.to_er7(), impl_dump(m), impl_validate(m))
                a = impl_outcome(fi)
                try:
                    mm = G.parse_message(t, lvl, fg)
                    try: val = model_validate(mm, mm['v'])
                    except Exception: val = ('modelcrash',)
                    b = ('ok', (G.enc_group(mm, mm['ec'], mm['v'], lvl), G.dump(mm), val))
                except M.MErr as x: b = ('exc', x.cls)
                except Exception: b = ('modelcrash', traceback.format_exc().splitlines()[-2:])
                if a == b: st[('agree', a[0] if a[0] == 'ok' else a[1])] += 1
                else: st[('DISAGREE', lvl, fg)] += 1; ex.setdefault((lvl, fg, a[0], b[0]), (v, t[:160]))
        a = impl_outcome(lambda: get_message_type(t))
        try: b = ('ok', G.get_message_type(t))
        except M.MErr as x: b = ('exc', x.cls)
        if a != b: st['DISAGREE-get_message_type'] += 1; ex.setdefault('gmt', (t[:100], a, b))
    for k in sorted(st, key=str): print(k, st[k])
    for k, e in ex.items(): print(k, e)
